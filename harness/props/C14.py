"""C14 — a proofreader match is reported at the flagged word in the LaTeX file."""
import re, json, os, random
import xml.etree.ElementTree as ET
import shellrun, semrun, gen, impl

OBLIGATIONS = ['Yalafi.C14_mapMatch_word', 'Yalafi.C14_assemble_shift', 'Yalafi.C14_assemble_skips_blank', 'Yalafi.C14_assemble_nonblank', 'Yalafi.C14_assemble_lengths', 'Yalafi.C14_sorted',
               # position arithmetic of the reports (Model/Reports.lean, correspondence: corr_reports.py)
               'Yalafi.C14_linecol_roundtrip', 'Yalafi.C14_formats_agree', 'Yalafi.C14_jsonPriv_nat', 'Yalafi.C14_html_agrees',
               'Yalafi.C14_html_end_agrees', 'Yalafi.C14_xmlb_bytes', 'Yalafi.C14_xmlb_bytes_end', 'Yalafi.C14_translate_numbers',
               'Yalafi.C14_translate_numbers_none',
               'Yalafi.C14_shell_assembly', 'Yalafi.C14_line_column_unique', 'Yalafi.C14_run_reported', 'Yalafi.C14_flagged_word_group_e2e', 'Yalafi.C14_copied_run_group', 'Yalafi.C14_copied_run_contiguous', 'Yalafi.C14_copied_run_footnote', 'Yalafi.C14_flagged_word_e2e', 'Yalafi.C14_sorted_e2e', 'Yalafi.C14_runs_sorted', 'Yalafi.C14_flagged_word_e2e_current', 'Yalafi.C14_flagged_word_example_current', 'Yalafi.C14_flagged_word_example', 'Yalafi.C14_flagged_word_example_eval', 'Yalafi.C14_sorted_example_eval', 'Yalafi.C14_flagged_word_group_e2e_current', 'Yalafi.C14_flagged_word_group_example_current', 'Yalafi.C14_flagged_word_group_example_eval',
               'Yalafi.C14_shift_is_text_length', 'Yalafi.C14_submit_split', 'Yalafi.C14_assemble_run', 'Yalafi.C14_ml_run_reported', 'Yalafi.C14_ml_runs_sorted', 'Yalafi.C14_flagged_word_ml_e2e', 'Yalafi.C14_sorted_ml_e2e', 'Yalafi.C14_withAnswers', 'Yalafi.C14_flagged_word_ml_e2e_current', 'Yalafi.C14_flagged_word_ml_example_current', 'Yalafi.C14_flagged_word_ml_example', 'Yalafi.C14_flagged_word_ml_example_eval', 'Yalafi.C14_shell_loop_is_submit',
               'Yalafi.PlainLangMix.C14_flagged_word_mlmix_e2e', 'Yalafi.PlainLangMix.C14_flagged_word_mlmix_unique', 'Yalafi.PlainLangMix.C14_flagged_word_mlmix_exactly_one', 'Yalafi.PlainLangMix.C14_sorted_mlmix_e2e', 'Yalafi.PlainLangMix.C14_flagged_word_mlmix_e2e_current', 'Yalafi.PlainLangMix.C14_flagged_word_mlmix_exactly_one_current', 'Yalafi.PlainLangMix.C14_flagged_word_mlmix_example_current', 'Yalafi.PlainLangMix.C14_flagged_word_mlmix_example', 'Yalafi.PlainLangMix.C14_flagged_word_mlmix_example_eval', 'Yalafi.PlainLangMix.C14_mlmix_single_char_not_unique',
               'Yalafi.C14_copied_run_mix3', 'Yalafi.C14_copied_run_footnote_mix3', 'Yalafi.C14_flagged_word_mix3_e2e', 'Yalafi.C14_flagged_run_mix3_e2e', 'Yalafi.C14_flagged_word_head_mix3_e2e', 'Yalafi.C14_flagged_word_foot_mix3_e2e', 'Yalafi.C14_sorted_mix3_e2e', 'Yalafi.C14_flagged_word_mix3_e2e_current', 'Yalafi.C14_sorted_mix3_e2e_current', 'Yalafi.C14_flagged_word_mix3_example_current', 'Yalafi.C14_flagged_word_mix3_example', 'Yalafi.C14_sorted_mix3_example', 'Yalafi.C14_flagged_word_mix3_example_eval', 'Yalafi.C14_sorted_mix3_example_eval', 'Yalafi.C14_flagged_extra_mix3_example_current', 'Yalafi.C14_flagged_extra_mix3_example']

ONLY = {'c_group', 'c_unknown', 'c_vanish', 'c_ref', 'c_inline_math', 'c_cite', 'c_footnote', 'c_itemize', 'c_env_unknown',
        'c_foreign', 'c_special', 'c_heading'}

def make_case(rng, multi):
    only = set(ONLY)
    if not multi:
        only -= {'c_foreign'}
    c = semrun.make_case(rng, profile={'only': only if not multi else (only | {'c_foreign'}), 'heading_footnotes': False},
                         n=rng.randint(3, 9) if not multi else rng.randint(8, 16))
    if multi and 'foreignlanguage' not in c['src']:
        c['src'] += ' \\foreignlanguage{german}{Qzza Qzzb Qzzc Qzzd Qzze} Qzzf Qzzg.\n'
    src = c['src']
    if rng.random() < 0.4:
        src = 'ä ö ' + src        # non-ASCII text in front: xml-b counts bytes (not inserted in the middle: behind a control word it would glue to a word)
    phrase = None
    if not multi and rng.random() < 0.5:
        # a flagged text that spans a line break of the file (a repeated word at a line end, say)
        phrase = 'Qzzx\nQzzy'
        src = src.rstrip('\n') + '\n\nQzzw ' + phrase + ' Qzzv.\n'
    if not src.endswith('\n') and rng.random() < 0.7:
        src += '\n'
    words = [w for w in re.findall(r'Q[a-z]+', src)]
    visible = {w['w'] for w in c['words'] if w['role'] in ('copy', 'detached')} | {'Qzza', 'Qzzb', 'Qzzc', 'Qzzd', 'Qzze', 'Qzzf', 'Qzzg'}
    uniq = [w for w in words if words.count(w) == 1 and w in visible]      # a word inside vanishing markup cannot be flagged
    # some flagged words contain non-ASCII letters themselves (byte columns of xml-b differ from character columns inside the word)
    for w in uniq[:]:
        if rng.random() < 0.25 and re.search(re.escape(w) + r'(?![a-z])', src):
            w2 = w[:2] + rng.choice(['ä', 'öß', 'ü']) + w[2:] + rng.choice(['', 'ß'])
            m = re.search(re.escape(w) + r'(?![a-z])', src)
            src = src[:m.start()] + w2 + src[m.end():]
            uniq[uniq.index(w)] = w2
    rng.shuffle(uniq)
    uniq = [w for w in uniq if w not in ('Qzzx', 'Qzzy')]
    flag = uniq[:rng.randint(1, 4) if not multi else rng.randint(4, 9)]
    if phrase:
        flag.append(phrase)
    return {'src': src, 'flag': flag, 'multi': multi}

def expected(case):
    tex = case['src'] if case['src'].endswith('\n') else case['src'] + '\n'
    exp = []
    for w in case['flag']:
        off = re.search(re.escape(w) + r'(?![a-zäöüß])', tex).start()
        exp.append((off, len(w), w))
    exp.sort()
    return tex, exp

def parse_plain(out):
    res = []
    for m in re.finditer(r'^\d+\.\) Line (\d+), column (\d+), Rule ID', out, flags=re.M):
        res.append((int(m.group(1)), int(m.group(2))))
    ctxs = re.findall(r'^(.*)\n( *)(\^+)\n', out, flags=re.M)
    return res, ctxs

def run_modes(case):
    files = {'doc.tex': case['src']}
    args0 = ['--language', 'en-GB', '--packages', '*']
    if case['multi']:
        args0 += ['--multi-language', '--ml-continue-threshold', '2']
        if case.get('ml_rule') is not None:
            # the configured rule options for short parts: parts of at most N words get the additional --disable rule
            args0 += ['--ml-disable', 'QXRULE', '--ml-disablecategories', 'QXCAT', '--ml-rule-threshold', str(case['ml_rule'])]
    spec = {'flag_words': case['flag'], 'shuffle': case.get('shuffle', False)}
    out = {}
    for mode in case['modes']:
        out[mode] = shellrun.run_shell({'files': files, 'main': ['doc.tex'], 'args': args0 + ['--output', mode], 'spec': spec,
                                        'hashseed': case.get('hashseed', 0)})
    return out

def judge(case, res):
    fails = []
    tex, exp = expected(case)
    got_by_mode = {}
    for mode, r in res.items():
        if r['rc'] != 0:
            fails.append('%s report: exit status %d: %s' % (mode, r['rc'], r['stderr'][-200:])); continue
        # a flagged word survives only if the filter kept it: use what the fake proofreader saw
        seen = set()
        for l in r['log']:
            for w in case['flag']:
                if w in l['plain']:
                    seen.add(w)
        want = [(o, n, w) for (o, n, w) in exp if w in seen]
        if mode == 'plain':
            lc, ctxs = parse_plain(r['stdout'])
            wantlc = [shellrun.linecol(tex, o) for (o, n, w) in want]
            got_by_mode[mode] = lc
            if lc != wantlc:
                fails.append('plain report: messages at (line, column) %r, flagged words stand at %r (ordered by position)' % (lc, wantlc))
            for (txt, sp, mk), (o, n, w) in zip(ctxs, want):
                if txt[len(sp):len(sp) + len(mk)] != w.replace('\n', ' '):       # the proofreader's excerpt shows a line break as a blank
                    fails.append('plain report: the excerpt marks %r instead of the flagged word %r' % (txt[len(sp):len(sp) + len(mk)], w))
        elif mode == 'json':
            try:
                ms = json.loads(r['stdout'])['matches']
            except Exception as e:
                fails.append('json report unreadable: %s' % e); continue
            got = [(m['offset'], m['length']) for m in ms]
            if got != [(o, n) for (o, n, w) in want]:
                fails.append('json report: (offset, length) %r, flagged words stand at %r' % (got, [(o, n) for (o, n, w) in want]))
            for m, (o, n, w) in zip(ms, want):
                l, c = shellrun.linecol(tex, o)
                pv = m.get('priv', {})
                l2, c2 = shellrun.linecol(tex, o + n - 1)
                if (pv.get('fromy'), pv.get('fromx'), pv.get('toy'), pv.get('tox')) != (l - 1, c - 1, l2 - 1, c2):
                    fails.append('json report: priv %r for the word at line %d column %d length %d' % (pv, l, c, n))
            got_by_mode[mode] = [shellrun.linecol(tex, o) for (o, n) in got if 0 <= o <= len(tex)]
        elif mode in ('xml', 'xml-b'):
            try:
                root = ET.fromstring(r['stdout'])
            except Exception as e:
                fails.append('%s report unreadable: %s' % (mode, e)); continue
            got = [(int(e.get('fromy')), int(e.get('fromx')), int(e.get('toy')), int(e.get('tox'))) for e in root]
            wantx = []
            for (o, n, w) in want:
                l, c = shellrun.linecol(tex, o)
                ls = tex.rfind('\n', 0, o) + 1
                l2, c2 = shellrun.linecol(tex, o + n - 1)
                ls2 = tex.rfind('\n', 0, o + n - 1) + 1
                if mode == 'xml-b':
                    fx = len(tex[ls:o].encode()); tx = len(tex[ls2:o + n].encode())
                else:
                    fx = c - 1; tx = c2
                wantx.append((l - 1, fx, l2 - 1, tx))
            if got != wantx:
                fails.append('%s report: (fromy, fromx, toy, tox) %r, expected %r' % (mode, got, wantx))
            got_by_mode[mode] = [(a + 1, None) for (a, b, c, d) in got]
        elif mode == 'html':
            spans = re.findall(r'<span style="background: orange[^>]*>(.*?)</span>', r['stdout'], flags=re.S)
            words = [re.sub(r'<[^>]+>', '', s) for s in spans]
            if sorted(words) != sorted(w for (o, n, w) in want):
                fails.append('html report highlights %r, flagged words are %r' % (words, [w for (o, n, w) in want]))
        # language of every submitted part
        if case['multi'] and mode == 'plain':
            for l in r['log']:
                a = l['argv']
                if a.count('--language') != 1:
                    fails.append('a part was submitted with %d --language options' % a.count('--language'))
                if case.get('ml_rule') is not None:
                    short = len(l['plain'].split()) <= case['ml_rule']
                    dis = a[a.index('--disable') + 1] if '--disable' in a else ''
                    cat = a[a.index('--disablecategories') + 1] if '--disablecategories' in a else ''
                    if ('QXRULE' in dis.split(',')) != short or ('QXCAT' in cat.split(',')) != short:
                        fails.append('a part of %d words (--ml-rule-threshold %d) was submitted with --disable %r --disablecategories %r: the rule '
                                     'options configured for short parts must apply exactly to parts of at most that many words'
                                     % (len(l['plain'].split()), case['ml_rule'], dis, cat))
    return fails

def one(case):
    return run_modes(case)

def run(ctx):
    rng = ctx.rng
    n = ctx.scale(40, 600)
    cases = []
    for i in range(n):
        c = make_case(rng, multi=(i % 2 == 0))
        c['modes'] = ['plain', 'json', 'xml', 'xml-b', 'html'] if i % 2 == 0 else ['plain', 'json']
        if c['multi'] and i % 4 == 0:
            c['ml_rule'] = rng.choice([0, 1, 2, 2, 3, 4])
        c['shuffle'] = rng.random() < 0.5
        if ctx.tier == 'thorough' and i % 5 == 0:
            c['hashseed'] = rng.randint(1, 1000)
        cases.append(c)
    # server mode: every request is submitted with the configured rule options, whatever the earlier requests asked for
    from props import C17 as c17
    scases = []
    for _ in range(ctx.scale(4, 60)):
        reqs = [c17.gen_request(rng) for _ in range(rng.randint(2, 3))]
        reqs.insert(1, dict(c17.gen_request(rng), disabledRules='BAR_RULE'))
        scases.append((reqs, rng.choice(['--disable FOO_RULE', '--enable A_RULE --disablecategories TYPOS', '--disable R1 -eo'])))
    for (reqs, lto), (together, alone) in zip(scases, ctx.pmap(c17.server_case, scases, chunksize=1)):
        ctx.case(json.dumps([reqs, lto], sort_keys=True)); ctx.count('server_sequences')
        for i, (a, b) in enumerate(zip(together, alone)):
            if a != b:
                ctx.violation('server: request %d is submitted with the options %r after the earlier requests, but with %r when it is the first request (configured --lt-options %r)'
                              % (i + 1, a[1], b[1], lto), requests=reqs[:i + 1], lt_options=lto, server=True)
                break
    ctx.stats['_rule'] = ('generated documents (several lines, non-ASCII text, footnotes, items, headings, inline maths, language switches) x 1-4 flagged '
                          'unique words returned by a fake proofreader in arbitrary order x output modes plain/json/xml/xml-b/html (subprocess '
                          '`python -m yalafi.shell --lt-command`), single- and multi-language; expected line/column/length from the offsets of the words '
                          'in the file; non-trivial = at least 2 flagged words or multi-language')
    results = ctx.pmap(one, cases, chunksize=1)
    for c, r in zip(cases, results):
        ctx.case((c['src'], tuple(c['flag']), c['multi']), nontrivial=len(c['flag']) >= 2 or c['multi'])
        ctx.count('multi' if c['multi'] else 'single'); ctx.count('modes', len(c['modes']))
        fails = judge(c, r)
        if fails:
            ctx.violation(fails[0], src=c['src'], flag=c['flag'], multi=c['multi'], modes=c['modes'], shuffle=c['shuffle'], all=fails[:4], ml_rule=c.get('ml_rule'))
        if len(ctx.samples) < 3:
            ctx.sample({'src': c['src'][:200], 'flag': c['flag'], 'plain_report': r['plain']['stdout'][:300]})
    leaf(ctx)

def leaf(ctx):
    """correspondence of the pure shell functions with the Lean model"""
    import corr_shell
    corr_shell.map_match(ctx, ctx.scale(1500, 30000))
    corr_shell.assemble_sort(ctx, ctx.scale(300, 5000))
    if ctx.model_ok:
        import corr_reports
        corr_reports.reports_corr(ctx, ctx.scale(6000, 60000))

def judge_witness(w):
    c = dict(w)
    c.setdefault('modes', ['plain', 'json'])
    return judge(c, run_modes(c))

def replay(data):
    v = data['violation']
    f = judge_witness({'src': v['src'], 'flag': v['flag'], 'multi': v['multi'], 'modes': v.get('modes', ['plain', 'json']), 'shuffle': v.get('shuffle', False), 'ml_rule': v.get('ml_rule')})
    print('\n'.join(f) if f else 'ok')
    return not f
