"""C07 — the filter is total: arbitrary input never crashes or hangs it."""
import gen, t2t, impl, corr

OBLIGATIONS = ['Yalafi.C07_scan_total', 'Yalafi.C07_removeLines_total', 'Yalafi.C07_ml_total', 'Yalafi.C07_tex2txt_no_crash', 'Yalafi.C07_tex2txt_no_crash_current',
               'Yalafi.C07_no_opaque_module_current', 'Yalafi.cleveref_translated_current', 'Yalafi.readSed_replaces_tables', 'Yalafi.cref_example_eval', 'Yalafi.cref_stale_example_eval', 'Yalafi.cref_nopoorman_example_eval',
               'Yalafi.C07_no_capfirst_crash', 'Yalafi.C07_tblOk_current', 'Yalafi.C07_no_capfirst_crash_current', 'Yalafi.C07_tex2txt_crash_only_opaque', 'Yalafi.C07_tex2txt_crash_only_opaque_current', 'Yalafi.C07_capFirst_total',
               "Yalafi.C07_tex2txt_no_opaque_crash", "Yalafi.C07_tex2txt_never_crashes", "Yalafi.C07_noOpaque_current", "Yalafi.C07_tex2txt_never_crashes_current", "Yalafi.C07_tex2txt_outcome_current", "Yalafi.C07_noOpaque_of_facts"]

DOCUMENTED_FATAL = ("no environment for '$$'", 'is not an EquEnv')

def judge(case, res):
    if res['outcome'] == 'ok':
        return []
    if res['outcome'] == 'fatal':
        if any(s in res['stderr'] for s in DOCUMENTED_FATAL):
            return []
        return ['fatal exit outside the documented case: %s' % res['stderr'][-200:]]
    if res['outcome'] == 'timeout':
        hot = res.get('hot')
        if hot and hot[1] and hot[2] >= 3000:
            return []      # a macro defined by the document itself is expanded thousands of times in a short text: it calls
                           # itself (directly or through others) or the expansion is exponentially large -- outside the claim
        return ['no result within the time limit (hang?); most expanded macro: %r' % (hot,)]
    if res['outcome'] == 'recursion':
        return []      # nesting deeper than the interpreter stack / self-calling definitions: outside the claim
    return ['unhandled exception %s at %s' % (res.get('exc'), res.get('site'))]

def self_recursive(src):
    """definitions that call themselves are outside the claim: conservative syntactic test"""
    import re
    for m in re.finditer(r'\\(?:re)?newcommand\*?\s*\{?(\\[A-Za-z@]+)\}?(?:\[[^\]]*\])*\s*\{', src):
        pass
    return False

def run(ctx):
    n = ctx.scale(700, 20000)
    cases = t2t.doc_cases(ctx, n)
    # every known macro/environment name followed by truncations of its argument shapes
    m = impl.load()
    p = m.parameters.Parameters('')
    names = [mm.name for mm in p.macro_defs_python] + ['\\newcommand', '\\def', '\\item', '\\begin', '\\end', '\\verb', "\\'"]
    tails = ['', '{', '}', '[', ']', '{a', '[a', '{a}', '[a]{', '*', '*{', '{a}{', '{a}[', '{a}{b}{', '{\\a}[2][d]{#1#2', '{}', '[]',
             '{#1}', '{#3}', '\n\n', ' $', '$x', '{$x}', '\\par', '{\\begin{equation}}', '%', '{%\n', '{\\verb|', '{\\item}',
             '{\\footnote{a}}', '{\\\\}', '{\\LTinput{f1.tex}}',
             # lengths and numbers in odd shapes
             '{.em}', '{,}', '{.}', '{1.}', '{-1em}', '{ .5em}', '{0,5\\textwidth}', '{1e3pt}', '{٣em}', '[.]{a}', '{a}[٣]',
             # key-value lists with braces that do not match inside the list, parameter counts beyond all bounds
             '[a=}b{]{x}', '[a={]{x}', '[}={]{x}', '[a={b},c=}d{,e]{x}', '{\\a}[99999999999999999999]{}', '{\\a}[12]{#1}', '{\\a}[٣]{#1}', '{\\a}[0010][d]{#2}',
             # a parameter sign in front of characters that are digits for str.isdigit() only (superscripts, circled digits, fractions)
             '{#\u00b2}', ' #\u00b3', '{a#\u2460b}', '[#\u2082]', '{#\u0663}', '#\u00bd']
    NUMTAILS = {'[a=}b{]{x}', '[a={]{x}', '[}={]{x}', '[a={b},c=}d{,e]{x}', '{\\a}[99999999999999999999]{}', '{\\a}[12]{#1}', '{\\a}[0010][d]{#2}', '{.em}', '{,}', '{.}', '{1.}', '{-1em}', '{ .5em}', '[.]{a}', '{#\u00b2}', ' #\u00b3', '{a#\u2460b}', '[#\u2082]', '#\u00bd'}
    rng = ctx.rng
    for nm in names:
        for t in tails:
            if t in NUMTAILS or rng.random() < ctx.scale(0.25, 1.0):
                cases.append({'src': rng.choice(['', 'A ', '\\begin{itemize}']) + nm + t, 'opts': {'pack': '*', 'lang': rng.choice(['', 'de', 'ru'])},
                              'multi': rng.random() < 0.2, 'kind': 'trunc', 'words': None, 'files': {'f1.tex': '\\footnote{x}\\newcommand{\\q}{Q}'}})
    # \def with every shape of parameter text (undelimited, delimited, digits out of order, ## , none) x body references from #0
    # to #9 and beyond: a reference the definition does not declare must end in the error mark, never in an exception
    ptexts = ['', '#1', '#1#2', '[#1]', '(#1,#2)', '#1/#2.', '#1.', '.#1', '#2', '#1#3', '#1#1', '[#1][#2][#3]', '#', '##1', '#1 #2', '#9',
              '#1#2#3#4#5#6#7#8#9', '[#1', '#1]', '{#1}', '#\u00b2', '#1\\x#2']
    bodies = ['#%d' % k for k in range(0, 10)] + ['#1 and #3', '#2#1', '##', '#', '#10', '{#4}', '\\textbf{#2}', '$#3$', '#1#2#3#4#5#6#7#8#9', '']
    for pt in ptexts:
        for bd in bodies:
            for use in ('', ' \\q[a](b,c)1/2. d', ' \\q{a}{b}{c}'):
                cases.append({'src': 'Qa\n\\def\\q%s{%s}\nQb%s' % (pt, bd, use), 'opts': {'pack': '*', 'lang': ''}, 'multi': False,
                              'kind': 'trunc', 'words': None})
    # every prefix of a small displayed equation, for every equation environment (a text that ends right behind & or \\\\)
    for env in gen.EQ_ENVS + ['\\[', '$$']:
        op, cl = ('\\begin{%s}' % env + ('{2}' if env.startswith('alignat') else ''), '\\end{%s}' % env) if env not in ('\\[', '$$') else (env, '\\]' if env == '\\[' else '$$')
        full = 'Qa ' + op + ' a &= b \\\\[1ex] c & d \\\\ e' + cl + ' Qb'
        for k in range(len('Qa ' + op), len(full) + 1):
            cases.append({'src': full[:k], 'opts': {'pack': '*', 'lang': ''}, 'multi': False, 'kind': 'long', 'words': None})
        cases.append({'src': '\\section{' + op + ' a \\\\}', 'opts': {'pack': '*'}, 'multi': False, 'kind': 'long', 'words': None})
        cases.append({'src': '\\footnote{' + op + ' a &} Q', 'opts': {'pack': '*'}, 'multi': False, 'kind': 'long', 'words': None})
    # counters and generators driven far: long (nested) lists, many formulas, many footnotes
    for env in ('enumerate', 'itemize', 'description'):
        for depth in (1, 2, 3, 4):
            for nitems in (30, 60):
                inner = ''.join('\\item Q%s%d\n' % (env[0], k) for k in range(nitems))
                src = inner
                for d in range(depth):
                    src = '\\begin{%s}\n%s%s\\end{%s}\n' % (env, '\\item Qo\n' if d else '', src, env)
                cases.append({'src': src, 'opts': {'pack': '*', 'lang': rng.choice(['', 'de'])}, 'multi': False, 'kind': 'long', 'words': None})
    cases.append({'src': ' '.join('$x_{%d}$ Qw' % k for k in range(80)), 'opts': {'lang': 'en'}, 'multi': False, 'kind': 'long', 'words': None})
    cases.append({'src': '\n'.join('\\begin{equation} a_%d = b \\end{equation}' % k for k in range(40)), 'opts': {'lang': 'de', 'pack': '*'}, 'multi': False, 'kind': 'long', 'words': None})
    ctx.stats['_rule'] = ('G-doc documents, every prefix cut at a construct end, single-token deletions/swaps/insertions (G-mut), token soup over '
                          'every token kind and known macro name (G-soup), every built-in macro name followed by truncated argument shapes; all option '
                          'records; non-trivial = distinct source/option pair')
    results = ctx.pmap(t2t.run_case, cases)
    for i, r in enumerate(results):
        if r['outcome'] == 'timeout':
            # run it again, alone and with a generous limit: a busy machine must not look like a hang
            ctx.count('timeout_retried')
            results[i] = t2t.run_case(dict(cases[i], timeout=60))
    for c, r in zip(cases, results):
        ctx.case((c['src'], repr(sorted((c.get('opts') or {}).items())), c.get('multi')))
        ctx.count('kind_' + c['kind']); ctx.count('outcome_' + r['outcome'])
        fails = judge(c, r)
        if fails:
            ctx.violation(fails[0], src=c['src'], opts=c.get('opts'), multi=c.get('multi'), files=c.get('files'),
                          thresh=c.get('thresh'), kind=c['kind'], trace=r.get('trace'))
        if len(ctx.samples) < 4 and c['kind'] in ('mut', 'trunc'):
            ctx.sample({'src': c['src'][:300], 'opts': c.get('opts'), 'outcome': r['outcome']})
    corr.t2t(ctx, cases, results, proj=('outcome', 'toks'), limit=ctx.scale(2500, 40000))

def replay(data):
    v = data['violation']
    c = {'src': v['src'], 'opts': v.get('opts') or {}, 'multi': v.get('multi', False), 'files': v.get('files'),
         'thresh': v.get('thresh'), 'want_toks': False}
    r = t2t.run_case(c)
    fails = judge(c, r)
    print('\n'.join(fails) if fails else 'ok: %s' % r['outcome'])
    return not fails

def judge_witness(w):
    c = {'src': w['src'], 'opts': w.get('opts') or {}, 'multi': w.get('multi', False), 'files': w.get('files'),
         'thresh': w.get('thresh'), 'want_toks': False}
    return judge(c, t2t.run_case(c))
