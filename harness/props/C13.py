"""C13 — phrase replacement keeps text and position map consistent."""
import re, sys, os
import impl, proto, model

OBLIGATIONS = [
    'Yalafi.C13_substitute_spec', 'Yalafi.C13_substitute_positions', 'Yalafi.C13_findSpans_ok',
    'Yalafi.C13_match_no_par_break', 'Yalafi.C13_match_boundaries', 'Yalafi.C13_parseRule_comment',
    'Yalafi.C13_parseRule_no_lhs', 'Yalafi.C13_replacePhrases', 'Yalafi.C13_tex2txt_plain_repl', 'Yalafi.C13_tex2txt_plain_repl_current', 'Yalafi.C13_tex2txt_repl_commutes', 'Yalafi.C13_tex2txt_repl_ok', 'Yalafi.C13_tex2txt_repl_commutes_ml',
]

WORDS = ['und', 'oder', 'z.B.', 'a', 'B', 'e.g.', 'x+y', '(s)', 'Äpfel', 'naïve', 'd_1', 'x2', '$5', 'i.e.', 'Maß',
         'и', 'так', '[1]', 'a*b', 'the', 'The', 'in', 'so', 'called', '^', '|', '\\n', '?']
SEPS = [' ', ' ', ' ', '  ', '\t', '\n', ' \n', '\n ', ' \n \t', '\n\n', '\n \n', ' ', '\r', ', ', '. ', '-', '']

def gen_text(rng, n=None):
    n = n or rng.randint(0, 25)
    out = []
    for _ in range(n):
        out.append(rng.choice(WORDS))
        out.append(rng.choice(SEPS))
    if rng.random() < 0.3:
        out.insert(0, rng.choice(SEPS))
    return ''.join(out)

def gen_pos(rng, n):
    mode = rng.random()
    if mode < 0.5:
        start = rng.randint(0, 50)
        return list(range(start, start + n))
    if mode < 0.8:     # piecewise (footnote-like, non-monotonic)
        out = []; cur = rng.randint(0, 100)
        for _ in range(n):
            if rng.random() < 0.1:
                cur = rng.randint(0, 300)
            out.append(cur)
            if rng.random() < 0.8:
                cur += 1
        return out
    return [rng.randint(0, 500) for _ in range(n)]

def gen_rule(rng, text):
    toks = text.split()
    k = rng.choice([1, 1, 2, 2, 3])
    if toks and rng.random() < 0.85:
        i = rng.randrange(len(toks))
        lhs = toks[i:i + k]
    else:
        lhs = [rng.choice(WORDS) for _ in range(k)]
    r = rng.random()
    if r < 0.15:
        rhs = []
    elif r < 0.5:
        rhs = [rng.choice(WORDS)]
    else:
        rhs = [rng.choice(WORDS) for _ in range(rng.randint(1, 5))]
    sep = rng.choice([' ', '  ', '\t'])
    line = sep.join(lhs) + rng.choice([' & ', '\t&\t', ' &', ' & ']) + sep.join(rhs)
    q = rng.random()
    if q < 0.08:
        line = '# ' + line
    elif q < 0.16:
        line = line + '  # comment & more'
    elif q < 0.2:
        line = '& ' + ' '.join(rhs)
    elif q < 0.24:
        line = ' '.join(lhs)          # no '&' at all
    elif q < 0.27:
        line = ''
    return line + rng.choice(['', '\n'])

def ref_spans(pattern_words, bl, br, txt):
    """independent reference for the matcher, written from the property's wording"""
    def is_word(c):
        return c.isalnum() or c == '_'
    def boundary(i):
        a = i > 0 and is_word(txt[i - 1])
        b = i < len(txt) and is_word(txt[i])
        return a != b
    spans = []
    i = 0
    n = len(txt)
    while i < n:
        j = i
        ok = not bl or boundary(i)
        for wi, w in enumerate(pattern_words):
            if not ok:
                break
            if wi > 0:
                k = j
                while k < n and txt[k] in ' \t':
                    k += 1
                if k < n and txt[k] == '\n':
                    k += 1
                    while k < n and txt[k] in ' \t':
                        k += 1
                if k == j:
                    ok = False
                    break
                j = k
            if txt.startswith(w, j):
                j += len(w)
            else:
                ok = False
        if ok and br and not boundary(j):
            ok = False
        if ok and j > i:
            spans.append((i, j - i))
            i = j
        else:
            i += 1
    return spans

def one_case(args):
    """runs in a worker: implementation side of one case"""
    kind, txt, pos, lines = args
    m = impl.load()
    calls = []
    orig = m.utils.substitute
    def wrapped(i_txt, i_pos, expr, repl):
        spans = [(mm.start(0), len(mm.group(0))) for mm in re.finditer(expr, i_txt) if len(mm.group(0))]
        r = orig(i_txt, i_pos, expr, repl)
        calls.append({'txt': i_txt, 'pos': list(i_pos), 'expr': expr, 'repl': repl, 'spans': spans,
                      'out': (r[0], list(r[1]))})
        return r
    m.utils.substitute = wrapped
    try:
        res = impl.guarded(lambda: m.utils.replace_phrases(txt, list(pos), list(lines)))
    finally:
        m.utils.substitute = orig
    res['calls'] = calls
    if res['outcome'] == 'ok':
        res['value'] = (res['value'][0], list(res['value'][1]))
    return res

def check_bookkeeping(c):
    """the property's three bookkeeping claims on one substitute call; returns error or None"""
    txt, pos, repl, spans = c['txt'], c['pos'], c['repl'], c['spans']
    otxt, opos = c['out']
    if len(otxt) != len(opos):
        return 'text and position list differ in length (%d vs %d)' % (len(otxt), len(opos))
    exp = []
    last = 0
    for (s, l) in spans:
        for i in range(last, s):
            exp.append((txt[i], pos[i]))
        for j, ch in enumerate(repl):
            exp.append((ch, pos[s + min(j, l - 1)]))
        last = s + l
    for i in range(last, len(txt)):
        exp.append((txt[i], pos[i]))
    got = list(zip(otxt, opos))
    if got != exp:
        k = next((i for i in range(min(len(got), len(exp))) if got[i] != exp[i]), min(len(got), len(exp)))
        return 'output deviates from specification at index %d: got %r expected %r' % (
            k, got[k:k + 3], exp[k:k + 3])
    return None

def parse_line_ref(line):
    i = line.find('#')
    if i >= 0:
        line = line[:i]
    ws = line.split()
    lhs = []
    for k, w in enumerate(ws):
        if w == '&':
            rhs = ws[k + 1:]
            break
        lhs.append(w)
    else:
        rhs = []
    if not lhs:
        return None
    return lhs, lhs[0][0].isalpha(), lhs[-1][-1].isalpha(), ' '.join(rhs)

def judge(case, res):
    """oracle on the implementation's behaviour; returns list of failure strings"""
    kind, txt, pos, lines = case
    fails = []
    if res['outcome'] != 'ok':
        return ['replace_phrases raised: %s %s' % (res['outcome'], res.get('exc'))]
    rules = [r for r in (parse_line_ref(l) for l in lines) if r is not None]
    if len(rules) != len(res['calls']):
        fails.append('number of applied rules %d differs from rules with a left-hand side %d' % (len(res['calls']), len(rules)))
        return fails
    cur_t, cur_p = txt, list(pos)
    for r, c in zip(rules, res['calls']):
        if (c['txt'], c['pos']) != (cur_t, cur_p):
            fails.append('rule is not applied to the output of the previous rule')
        e = check_bookkeeping(c)
        if e:
            fails.append(e)
        if c['repl'] != r[3]:
            fails.append('replacement %r differs from right-hand side %r' % (c['repl'], r[3]))
        ref = ref_spans(r[0], r[1], r[2], c['txt'])
        if ref != c['spans']:
            fails.append('match spans %r differ from reference %r for phrase %r' % (c['spans'][:5], ref[:5], r[0]))
        for (s, l) in c['spans']:
            seg = c['txt'][s:s + l]
            if re.search(r'\n[ \t]*\n', seg):
                fails.append('match crosses a paragraph break: %r' % seg)
        cur_t, cur_p = c['out']
    if (res['value'][0], res['value'][1]) != (cur_t, cur_p):
        fails.append('result is not the output of the last rule')
    if len(res['value'][0]) != len(res['value'][1]):
        fails.append('final lengths differ')
    if not set(res['value'][1]) <= set(pos):
        fails.append('final positions not taken from the input positions')
    return fails

def model_requests(idx, case, res):
    kind, txt, pos, lines = case
    reqs = [('REPL', 'r%d' % idx, [proto.enc_str(txt), proto.enc_nats(pos)] +
             proto.enc_list([l for l in lines], lambda l: [proto.enc_str(l)]))]
    for k, c in enumerate(res.get('calls', [])):
        reqs.append(('SUBST', 's%d.%d' % (idx, k), [proto.enc_str(c['txt']), proto.enc_nats(c['pos'])] +
                     proto.enc_list(c['spans'], lambda s: [str(s[0]), str(s[1])]) + [proto.enc_str(c['repl'])]))
    return reqs

def compare(ctx, idx, case, res, ans):
    kind, txt, pos, lines = case
    a = ans.get('r%d' % idx)
    ctx.corr['cases'] += 1
    if res['outcome'] != 'ok':
        ctx.disagree('implementation raised, model total', case=case, exc=res.get('exc'))
        return
    rd = proto.Reader(a)
    if rd.next() != 'ok':
        ctx.disagree('model error', case=case, answer=a[:3]); return
    mt, mp = rd.txtpos()
    if (mt, mp) != (res['value'][0], res['value'][1]):
        ctx.disagree('replace_phrases: model and implementation differ', case=case,
                     impl=[res['value'][0], res['value'][1]], model=[mt, mp])
    for k, c in enumerate(res['calls']):
        rd = proto.Reader(ans['s%d.%d' % (idx, k)])
        ctx.corr['cases'] += 1
        if rd.next() != 'ok':
            ctx.disagree('model error (SUBST)', case=case); continue
        mt, mp = rd.txtpos()
        if (mt, mp) != (c['out'][0], c['out'][1]):
            ctx.disagree('substitute: model and implementation differ', call=c, model=[mt, mp])

def gen_cases(ctx, n):
    rng = ctx.rng
    cases = []
    for _ in range(n):
        txt = gen_text(rng)
        pos = gen_pos(rng, len(txt))
        lines = [gen_rule(rng, txt) for _ in range(rng.choice([1, 1, 1, 2, 3, 5]))]
        cases.append(('repl', txt, pos, lines))
    # systematic: every pair (shorter / equal / longer replacement) x consecutive matches
    for lhs, rhs in [('a', ''), ('a', 'b'), ('a', 'bcd'), ('a a', 'x'), ('a.b', 'c'), ('a', 'a a')]:
        for txt in ['a', 'a a', 'a a a', 'aa a', 'a\na', 'a \n a', 'a\n\na', 'xa a.b a', 'a_ a', 'a1 a']:
            cases.append(('repl', txt, list(range(7, 7 + len(txt))), [lhs + ' & ' + rhs]))
    return cases

def run(ctx):
    n = ctx.scale(3000, 60000)
    cases = gen_cases(ctx, n)
    ctx.stats['_rule'] = ('random texts over a vocabulary with regex metacharacters, non-ASCII letters, digits, '
                          'underscores and layouts (blank lines, tabs, NBSP); position lists monotonic / piecewise / random; '
                          '1-5 rules per case incl. comments, missing "&", empty sides; non-trivial = at least one match replaced')
    results = ctx.pmap(one_case, cases)
    reqs = []
    for i, (c, r) in enumerate(zip(cases, results)):
        nm = sum(len(x['spans']) for x in r.get('calls', []))
        ctx.case((c[1], tuple(c[2]), tuple(c[3])), nontrivial=nm > 0)
        ctx.count('matches', nm)
        ctx.count('rules_applied', len(r.get('calls', [])))
        ctx.count('outcome_' + r['outcome'])
        for x in r.get('calls', []):
            for (s, l) in x['spans']:
                ctx.count('repl_shorter' if len(x['repl']) < l else 'repl_equal' if len(x['repl']) == l else 'repl_longer')
        fails = judge(c, r)
        if fails:
            ctx.violation(fails[0], text=c[1], positions=c[2], rules=c[3], all=fails[:5])
        if i < 3:
            ctx.sample({'text': c[1], 'rules': c[3], 'result': r.get('value')})
        if ctx.model_ok:
            reqs.extend(model_requests(i, c, r))
    if ctx.model_ok:
        ans = model.run_batch(reqs)
        for i, (c, r) in enumerate(zip(cases, results)):
            compare(ctx, i, c, r, ans)
    else:
        ctx.notes.append('model driver not built: correspondence skipped, oracle only')
    # end-to-end through tex2txt
    e2e(ctx)
    file_routes(ctx)

def e2e_case(args):
    latex, repl, multi = args
    r = impl.run_tex2txt(latex, {'repl': repl, 'lang': 'en', 'pack': '*'}, multi=multi)
    r.pop('toks', None)
    return r

def e2e(ctx):
    rng = ctx.rng
    cases = []
    for _ in range(ctx.scale(150, 3000)):
        body = gen_text(rng, rng.randint(3, 15)).replace('$', 'S').replace('\\', '/').replace('^', 'v').replace('_', '-').replace('#', '+').replace('&', 'and').replace('[', '(').replace(']', ')').replace('\r', ' ')
        if rng.random() < 0.5:
            body = 'Text \\footnote{' + body + '} more. ' + body
        lines = [gen_rule(rng, body) for _ in range(rng.randint(1, 3))]
        cases.append((body, lines, rng.random() < 0.3))
    res = ctx.pmap(e2e_case, cases)
    for c, r in zip(cases, res):
        ctx.case(('e2e',) + (c[0], tuple(c[1]), c[2]))
        ctx.count('e2e_' + r['outcome'])
        if r['outcome'] != 'ok':
            ctx.violation('tex2txt with replacements raised: %s' % r.get('exc'), latex=c[0], rules=c[1], multi=c[2])
            continue
        v = r['value']
        parts = [v] if not c[2] else [p for ps in v.values() for p in ps]
        for t, p in parts:
            if len(t) != len(p):
                ctx.violation('tex2txt: text and map differ in length after replacement', latex=c[0], rules=c[1], multi=c[2])
            elif any(not (1 <= x <= len(c[0])) for x in p):
                ctx.violation('tex2txt: position outside the source after replacement', latex=c[0], rules=c[1], multi=c[2])

def file_route(args):
    """rules read from a file with tex2txt.read_replacements (as the command-line tools do) against the same rules given as a list:
    a multi-language document with two parts in the main language, and two documents converted with one Options object"""
    rules, words = args
    import tempfile, os
    m = impl.load()
    d = tempfile.mkdtemp(prefix='yvr_')
    try:
        fn = os.path.join(d, 'repl.txt')
        open(fn, 'w', encoding='utf-8').write(''.join(l + '\n' for l in rules))
        doc = ('\\usepackage{babel}\n' + ' '.join(words[:6]) + '.\n\\begin{otherlanguage}{german}\n' + 'Ein langer deutscher Absatz mit vielen Worten. ' * 3
               + '\n\\end{otherlanguage}\n' + ' '.join(words[6:]) + '.\n')
        out = {}
        for route in ('file', 'list'):
            def call():
                rp = m.tex2txt.read_replacements(fn, 'utf-8')
                if route == 'list':
                    rp = list(rp)
                o = m.tex2txt.Options(lang='en-GB', pack='*', repl=rp)
                a = m.tex2txt.tex2txt(doc, o, multi_language=True)
                b = m.tex2txt.tex2txt(' '.join(words) + '.', o)
                c = m.tex2txt.tex2txt(' '.join(reversed(words)) + '.', o)
                return [sorted((k, [(t, list(p)) for t, p in v]) for k, v in a.items()), (b[0], list(b[1])), (c[0], list(c[1]))]
            r = impl.guarded(call, 30)
            out[route] = (r['outcome'], r['value'], r.get('exc'))
        return out
    finally:
        import shutil; shutil.rmtree(d, ignore_errors=True)

def file_routes(ctx):
    rng = ctx.rng
    cases = []
    for _ in range(ctx.scale(40, 600)):
        words = [rng.choice(['so', 'dass', 'teh', 'alpha', 'beta', 'gamma', 'Word', 'z.', 'B.', 'and', 'the', 'end']) for _ in range(14)]
        rules = [rng.choice(['so dass & sodass', 'teh & the', 'alpha beta & ab', 'z. B. & zum Beispiel', '# comment', 'gamma & ', 'the end & finis'])
                 for _ in range(rng.randint(1, 4))]
        cases.append((rules, words))
    for c, r in zip(cases, ctx.pmap(file_route, cases)):
        ctx.case(('file-route', tuple(c[0]), tuple(c[1]))); ctx.count('file_route_' + r['file'][0])
        if r['file'] != r['list']:
            ctx.violation('rules read from a file with read_replacements give %r, the same rules as a list give %r' % (
                str(r['file'])[:200], str(r['list'])[:200]), rules=c[0], words=c[1], kind='file-route')

def replay(data):
    v = data['violation']
    if v.get('kind') == 'file-route':
        r = file_route((v['rules'], v['words']))
        print('ok' if r['file'] == r['list'] else 'routes differ')
        return r['file'] == r['list']
    if 'text' in v:
        case = ('repl', v['text'], v['positions'], v['rules'])
        r = one_case(case)
        fails = judge(case, r)
        print('\n'.join(fails) if fails else 'ok')
        return not fails
    r = e2e_case((v['latex'], v['rules'], v['multi']))
    print(r['outcome'], r.get('exc'))
    return r['outcome'] == 'ok'
