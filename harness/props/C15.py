"""C15 — any proofreader answer gives an in-file report or a clean error, no traceback."""
import re, json, random
import xml.etree.ElementTree as ET
import shellrun, impl

OBLIGATIONS = ['Yalafi.C15_mapMatch_total', 'Yalafi.C15_mapMatch_in_file', 'Yalafi.C15_jsonGet_typed', 'Yalafi.C15_jsonGet_no_crash',
               'Yalafi.C15_sort_checks_offsets',
               # every reported location lies inside the file (Model/Reports.lean, correspondence: corr_reports.py)
               'Yalafi.C15_located_in_file', 'Yalafi.C15_report_in_file', 'Yalafi.C15_located_char', 'Yalafi.C15_mapped_report_in_file',
               'Yalafi.C15_zero_length_mapped', 'Yalafi.C15_zero_length_report',
               'Yalafi.C15_every_location_in_file_e2e', 'Yalafi.C15_shell_dichotomy_e2e', 'Yalafi.C15_every_location_in_file_current']

DOCS = ['This is a testx.\nSecond line.\n',
        'Text \\footnote{Deep note here} more $x$ text.\n\nNext \\textbf{par} ends\n',
        'Ä ö ü \\section{Head} body \\cite{k} done',
        'a\n']
MODES = ['plain', 'json', 'xml', 'xml-b', 'html']
FIELDS = [['matches'], ['matches', 0], ['matches', 0, 'offset'], ['matches', 0, 'length'], ['matches', 0, 'message'],
          ['matches', 0, 'context'], ['matches', 0, 'context', 'text'], ['matches', 0, 'context', 'offset'],
          ['matches', 0, 'context', 'length'], ['matches', 0, 'replacements'], ['matches', 0, 'replacements', 0],
          ['matches', 0, 'replacements', 0, 'value'], ['matches', 0, 'rule'], ['matches', 0, 'rule', 'id'],
          ['matches', 0, 'rule', 'category'], ['matches', 0, 'rule', 'category', 'name'], ['matches', 0, 'rule', 'subId'],
          ['matches', 0, 'rule', 'urls'], ['matches', 0, 'rule', 'urls', 0], ['matches', 0, 'rule', 'urls', 0, 'value'],
          # fields the shell does not read: they are passed through to the json report
          ['matches', 0, 'contextForSureMatch'], ['matches', 0, 'extra'], ['software']]
TYPES = [None, True, 'x', 3, 1.5, [], {}, [1], {'a': 1}, float('inf'), float('-inf'), float('nan')]
# perturbations of string values: backslashes (macro names quoted from the text, group references of a regular expression), line breaks, markup, an unpaired surrogate (valid JSON "\\ud800"), empty, long
STRINGS = ['a\\qb', 'x \\quad y', '\\g<0>', '\\1\\2', 'end\\', 'a\nb', 'a\r\nb\n', '<b>"&', 'http://x/<br>\ny', 'u"><i>x', '\ud800', 'x\udfffy', '', 'Ä' * 300, 'a\tb', '\x00', '\u2028']
STRING_FIELDS = [['matches', 0, 'message'], ['matches', 0, 'context', 'text'], ['matches', 0, 'replacements', 0, 'value'],
                 ['matches', 0, 'rule', 'id'], ['matches', 0, 'rule', 'subId'], ['matches', 0, 'rule', 'category', 'name'],
                 ['matches', 0, 'rule', 'urls', 0, 'value']]
VALUES = [None, True, 'x', 3, -1, 1.5, [], {}, [1], {'a': 1}, 10 ** 30, -10 ** 30, 10 ** 5]

def gen_cases(ctx):
    rng = ctx.rng
    cases = []
    def add(doc, mode, spec, kind):
        args = ['--output', mode]
        if mode == 'html' and rng.random() < 0.5:
            args.append('--link')          # the html report then also uses rule.urls
        cases.append({'files': {'d.tex': doc}, 'main': ['d.tex'], 'args': args, 'spec': spec, 'kind': kind, 'doc': doc, 'mode': mode})
    # all in-range (offset, length) pairs incl. first/last character and zero-length matches (sampled in the quick tier)
    for doc in DOCS:
        pairs = [(0.0, 0), (0.0, 1), (0.999, 0), (0.999, 1), (0.5, 'toend'), (0.0, 'toend')]
        pairs += [(rng.random(), rng.randint(0, 12)) for _ in range(ctx.scale(3, 40))]
        for f, l in pairs:
            add(doc, rng.choice(MODES), {'frac_spans': [(f, l)]}, 'inrange')
        for o, l in [(-1, 1), (-1, 0), (-2, 2), (-1, 5), (0, 10 ** 6), (10 ** 6, 1), (-10 ** 6, 1)]:
            add(doc, rng.choice(MODES), {'abs_spans': [(o, l)]}, 'edge')
    # single-field deletions, type changes, value perturbations
    n_mut = ctx.scale(90, 1500)
    for _ in range(n_mut):
        doc = rng.choice(DOCS)
        path = rng.choice(FIELDS)
        op = rng.choice(['del', 'set', 'set', 'add'])
        mu = {'op': op, 'path': path}
        if op == 'set':
            mu['value'] = rng.choice(VALUES)
        elif op == 'add':
            mu['value'] = rng.choice([1, -1, 1000, -1000])
        add(doc, rng.choice(MODES), {'frac_spans': [(rng.random() * 0.9, rng.randint(0, 6))], 'mutations': [mu]}, 'mutate:' + op)
    # every field x every JSON type x every output mode (a generator may look at an optional field in one mode only)
    for path in FIELDS:
        for val in TYPES:
            for mode in MODES:
                if ctx.tier == 'thorough' or rng.random() < 0.5:
                    add(DOCS[0], mode, {'frac_spans': [(0.3, 2)], 'mutations': [{'op': 'set', 'path': path, 'value': val}]}, 'mutate:type')
        for mode in MODES:
            add(DOCS[0], mode, {'frac_spans': [(0.3, 2)], 'mutations': [{'op': 'del', 'path': path}]}, 'mutate:del')
    # every string field x hostile string values x every output mode
    for path in STRING_FIELDS:
        for val in STRINGS:
            for mode in MODES:
                if ctx.tier == 'thorough' or rng.random() < 0.5:
                    add(DOCS[2], mode, {'frac_spans': [(0.3, 2)], 'mutations': [{'op': 'set', 'path': path, 'value': val}]}, 'mutate:string')
    # the html report with --link uses the URL of the rule
    for val in STRINGS:
        cases.append({'files': {'d.tex': DOCS[0]}, 'main': ['d.tex'], 'args': ['--output', 'html', '--link'],
                      'spec': {'frac_spans': [(0.3, 2)], 'mutations': [{'op': 'set', 'path': ['matches', 0, 'rule', 'urls', 0, 'value'], 'value': val}]},
                      'kind': 'mutate:url', 'doc': DOCS[0], 'mode': 'html'})
    # byte truncation inside a multi-byte character (the answer is sent as UTF-8, not ASCII-escaped)
    for mode in MODES:
        for k in range(ctx.scale(6, 60)):
            add(DOCS[2], mode, {'frac_spans': [(0.0, 3)], 'ascii': False, 'message': 'Ää€𝄞 ' * 3, 'truncate': rng.random()}, 'truncate:utf8')
    # every numeric field set to huge / negative values
    for path in [p for p in FIELDS if p[-1] in ('offset', 'length')]:
        for val in (10 ** 30, -10 ** 30, -1, 10 ** 5):
            for mode in MODES:
                add(rng.choice(DOCS), mode, {'frac_spans': [(0.3, 2)], 'mutations': [{'op': 'set', 'path': path, 'value': val}]}, 'mutate:num')
    # truncations and non-JSON
    for _ in range(ctx.scale(25, 400)):
        add(rng.choice(DOCS), rng.choice(MODES), {'frac_spans': [(0.3, 2)], 'truncate': rng.random()}, 'truncate')
    deep = ['{"matches": [], "extra": ' + '[' * k + ']' * k + '}' for k in (2000, 100000)] + ['[' * 100000, '{"a":' * 5000]
    for raw in deep + ['', 'null', '[]', '{}', '{"matches": null}', '{"matches": [null]}', '{"matches": [[]]}', 'NaN', '"x"', '{"matches": [{"offset": 1e3}]}',
                '{"matches":[{"offset":0,"length":1}]}', '﻿{}', '{"matches": [{"offset": "0", "length": 1}]}']:
        for mode in MODES:
            add(rng.choice(DOCS), mode, {'raw': raw}, 'raw')
    return cases

def locations(case, r):
    """(line, col) / (offset, length) reported; returns list of problems"""
    doc = case['doc'] if case['doc'].endswith('\n') else case['doc'] + '\n'
    lines = doc.split('\n')
    nl = len(lines) - 1
    probs = []
    mode = case['mode']
    out = r['stdout']
    if mode == 'plain':
        for m in re.finditer(r'^\d+\.\) Line (\d+), column (\d+), Rule ID', out, flags=re.M):
            l, c = int(m.group(1)), int(m.group(2))
            if not (1 <= l <= nl and 1 <= c <= len(lines[l - 1]) + 1):
                probs.append('plain report names line %d, column %d outside the file (%d lines)' % (l, c, nl))
    elif mode == 'json':
        try:
            ms = json.loads(out)['matches']
        except Exception:
            return ['json report is not valid JSON: %r' % out[:80]]
        for m in ms:
            o, n = m.get('offset'), m.get('length')
            if not (isinstance(o, int) and isinstance(n, int) and 0 <= o < len(doc) and 0 <= o + n <= len(doc)):
                probs.append('json report: offset %r, length %r outside the file of %d characters' % (o, n, len(doc)))
    elif mode in ('xml', 'xml-b'):
        # the locations are read with a regular expression: a string of the answer may hold characters that XML
        # cannot represent at all (NUL, unpaired surrogates); whether the report is well-formed XML then is not C15's subject
        locs = re.findall(r'<error fromy="(-?\d+)" fromx="(-?\d+)" toy="(-?\d+)" tox="(-?\d+)"', out)
        if out.count('<error ') != len(locs):
            return ['%s report: %d <error> elements, %d with readable locations' % (mode, out.count('<error '), len(locs))]
        for loc in locs:
            fy, fx, ty, tx = (int(v) for v in loc)
            def ok(y, x):
                if not (0 <= y < nl):
                    return False
                ln = lines[y]
                mx = len(ln.encode()) if mode == 'xml-b' else len(ln)
                return 0 <= x <= mx + 1
            if not (ok(fy, fx) and ok(ty, tx)):
                probs.append('%s report: location (%d,%d)-(%d,%d) outside the file (%d lines)' % (mode, fy, fx, ty, tx, nl))
    elif mode == 'html':
        for m in re.finditer(r'title="[^"]*?Line (\d+)\+?:', out):
            if not (1 <= int(m.group(1)) <= nl):
                probs.append('html report names line %s outside the file' % m.group(1))
    return probs

def judge(case, r):
    fails = []
    if 'Traceback' in r['stderr']:
        last = r['stderr'].strip().split('\n')[-1]
        fails.append('unhandled Python exception in --output %s: %s' % (case['mode'], last))
    elif r['rc'] not in (0, 1):
        fails.append('exit status %d' % r['rc'])
    elif r['rc'] == 1 and '***' not in r['stderr']:
        fails.append('exit status 1 without the shell\'s own diagnostic')
    elif r['rc'] == 0:
        fails += locations(case, r)
    return fails

def one(case):
    return shellrun.run_shell(case)

def run(ctx):
    cases = gen_cases(ctx)
    ctx.stats['_rule'] = ('fake proofreader answers: in-range (offset,length) incl. first/last character, zero length, to-end; out-of-range offsets; every '
                          'single-field deletion / type change / value perturbation of a valid answer; byte truncations; non-JSON and wrong-shape answers; '
                          'x output modes plain/json/xml/xml-b/html (subprocess); non-trivial = malformed or edge answer')
    results = ctx.pmap(one, cases, chunksize=1)
    for c, r in zip(cases, results):
        ctx.case((c['doc'], c['mode'], json.dumps(c['spec'], sort_keys=True)), nontrivial=c['kind'] != 'inrange')
        ctx.count('kind_' + c['kind'].split(':')[0]); ctx.count('rc_%d' % r['rc']); ctx.count('mode_' + c['mode'])
        fails = judge(c, r)
        if fails:
            if nonmonotonic_class(c) and any(k['id'] == 'nonmonotonic-map-length' for k in ctx.known):
                ctx.known_hits.setdefault('nonmonotonic-map-length', {'what': next(k['line'] for k in ctx.known if k['id'] == 'nonmonotonic-map-length'), 'count': 0})['count'] += 1
                continue
            ctx.violation(fails[0], doc=c['doc'], mode=c['mode'], spec=c['spec'], extra_args=c['args'][2:], stderr=r['stderr'][-300:])
        if len(ctx.samples) < 4 and c['kind'] != 'inrange':
            ctx.sample({'mode': c['mode'], 'spec': c['spec'], 'rc': r['rc'], 'stderr': r['stderr'][-120:]})
    import corr_shell
    corr_shell.map_match(ctx, ctx.scale(1500, 30000))
    if ctx.model_ok:
        import corr_reports
        corr_reports.reports_corr(ctx, ctx.scale(3000, 30000))

def nonmonotonic_class(c):
    return False

def judge_witness(w):
    c = {'files': {'d.tex': w['doc']}, 'main': ['d.tex'], 'args': ['--output', w['mode']] + list(w.get('extra_args') or []), 'spec': w['spec'], 'doc': w['doc'], 'mode': w['mode']}
    return judge(c, shellrun.run_shell(c))

def replay(data):
    v = data['violation']
    f = judge_witness(v)
    print('\n'.join(f) if f else 'ok')
    return not f
