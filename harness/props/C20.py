"""C20 — the shell's own checks mark the offending characters, honour accepted patterns."""
import re, types
import impl, proto, model

OBLIGATIONS = ['Yalafi.C20_single_exact', 'Yalafi.C20_single_sorted', 'Yalafi.C20_accept', 'Yalafi.C20_context_marks',
               'Yalafi.C20_accept_split', 'Yalafi.C20_accept_hits_spec', 'Yalafi.C20_single_letters_e2e',
               'Yalafi.C20_eqpunct_marks_placeholder', 'Yalafi.C20_eqpunct_sound', 'Yalafi.C20_eqpunct_excuses_regex',
               'Yalafi.C20_eqpunct_complete', 'Yalafi.C20_eqpunct_cands', 'Yalafi.C20_eqpunct_matches', 'Yalafi.C20_classes_current',
               'Yalafi.C20_accept_boundaries', 'Yalafi.C20_alpha_word_current']

NB, NNB = ' ', ' '
ALPH = ['a', 'b', 'B', 'z', 'S', 'I', 'x', ' ', ' ', ' ', '.', ',', ';', ':', '1', '2', '_', '-', '\n', '\t', NB, NNB, 'é', 'ß', 'я',
        'word', 'Word', 'e.g.', 'z.' + NNB + 'B.', 'S.' + NB + '3', 'C-C-C', 'U-U-U', 'D-D-D', '(', ')', '٣', '²', '½']
ACCEPTS = [None, '', 'a', 'I|a', 'z.\\,B.', 'S.~', 'e.g.', 'z.\\,B.|S.~', 'a b', 'a b|b c', 'x||', 'B', '.', 'a|', 'I||']

def checks_mod():
    impl.load()
    import importlib
    return importlib.import_module('yalafi.shell.checks'), importlib.import_module('yalafi.parameters')

def placeholders(lang):
    ch, pa = checks_mod()
    lc = pa.Parameters(lang).lang_context
    return list(lc.math_repl_display), list(lc.math_repl_inline)

def run_single(args):
    plain, accept = args
    ch, pa = checks_mod()
    cmd = types.SimpleNamespace(single_letters=accept)
    def f():
        if accept is not None and accept.endswith('||'):
            d, i = placeholders('en')
            cmd.single_letters = accept + '|'.join(sorted(set(d + i)))
        return ch.create_single_letter_matches(plain, cmd)
    r = impl.guarded(f)
    return r

def is_word(c):
    return c.isalnum() or c == '_'

def ref_single(plain, accept):
    """reference written from the wording: isolated letters not covered by an occurrence of an accepted pattern"""
    if accept is None:
        return []
    pats = []
    d, i = placeholders('en')
    acc = accept
    if acc.endswith('||'):
        acc = acc + '|'.join(sorted(set(d + i)))
    for p in acc.split('|'):
        if p:
            pats.append(p.replace('~', NB).replace('\\,', NNB))
    covered = set()
    for p in pats:
        start = 0
        while True:
            j = plain.find(p, start)
            if j < 0:
                break
            ok = True
            if p[0].isalpha() and j > 0 and is_word(plain[j - 1]) == is_word(p[0]):
                ok = False
            e = j + len(p)
            if p[-1].isalpha() and e < len(plain) and is_word(plain[e]) == is_word(p[-1]):
                ok = False
            if ok:
                covered.update(range(j, e))
            start = j + 1
    out = []
    for k, c in enumerate(plain):
        if c.isalpha() and not (k > 0 and is_word(plain[k - 1])) and not (k + 1 < len(plain) and is_word(plain[k + 1])):
            if k not in covered:
                out.append(k)
    return out

def judge_single(case, r):
    plain, accept = case
    if r['outcome'] != 'ok':
        return ['create_single_letter_matches raised %s' % r.get('exc')]
    ms = r['value']
    got = [m['offset'] for m in ms]
    want = ref_single(plain, accept)
    fails = []
    if got != want:
        extra = [k for k in got if k not in want]; miss = [k for k in want if k not in got]
        fails.append('single letters reported at %r, isolated uncovered letters stand at %r (text %r, accept %r; not a letter / covered: %r, missed: %r)' % (
            got, want, plain[:60], accept, [(k, plain[k]) for k in extra][:4], [(k, plain[k]) for k in miss][:4]))
    for m in ms:
        o, n = m['offset'], m['length']
        if n != 1:
            fails.append('message length %d' % n)
        c = m['context']
        mark = c['text'][c['offset']:c['offset'] + c['length']]
        sel = plain[o:o + n].replace('\t', ' ').replace('\n', ' ')
        if mark != sel:
            fails.append('context marks %r, offset/length select %r' % (mark, sel))
    return fails

# ---- equation punctuation ---------------------------------------------------------

def run_eq(args):
    plain, mode = args
    ch, pa = checks_mod()
    d, i = placeholders('en')
    cmd = types.SimpleNamespace(equation_punctuation=mode)
    def f():
        return ch.create_equation_punct_messages(plain, cmd, '|'.join(sorted(set(d))), '|'.join(sorted(set(i))), '|'.join(sorted(set(d + i))))
    return impl.guarded(f)

def ref_eq(plain, mode):
    d, i = placeholders('en')
    repl = {'displayed': d, 'inline': i, 'all': d + i}[[k for k in ('displayed', 'inline', 'all') if k.startswith(mode)][0]]
    out = []
    pos = 0
    n = len(plain)
    def at(k):
        for p in sorted(set(repl), key=len, reverse=True):
            if plain.startswith(p, k):
                b1 = not (k > 0 and is_word(plain[k - 1]))
                e = k + len(p)
                b2 = not (e < n and is_word(plain[e]))
                if b1 and b2:
                    return p
        return None
    k = 0
    while k < n:
        p = at(k)
        if not p:
            k += 1
            continue
        e = k + len(p)
        j = e
        while j < n and plain[j].isspace():
            j += 1
        ok = False
        if j < n and plain[j] == '.':
            ok = True
        else:
            if j < n and plain[j] in ',;:':
                j += 1
                while j < n and plain[j].isspace():
                    j += 1
            if at(j):
                ok = True
            else:
                m = re.match(r'[^\W0-9_]+', plain[j:])
                if m and m.group(0)[0].islower():
                    ok = True
        if not ok:
            out.append(k)
        k = e
    return out

def judge_eq(case, r):
    plain, mode = case
    if r['outcome'] != 'ok':
        return ['create_equation_punct_messages raised %s' % r.get('exc')]
    got = [m['offset'] for m in r['value']]
    want = ref_eq(plain, mode)
    fails = []
    if got != want:
        fails.append('equation punctuation messages at %r, reference %r (text %r, mode %r)' % (got, want, plain[:80], mode))
    for m in r['value']:
        o, n = m['offset'], m['length']
        c = m['context']
        if c['text'][c['offset']:c['offset'] + c['length']] != plain[o:o + n].replace('\t', ' ').replace('\n', ' '):
            fails.append('context marks %r, offset/length select %r' % (c['text'][c['offset']:c['offset'] + c['length']], plain[o:o + n]))
    return fails

def run(ctx):
    rng = ctx.rng
    cases = []
    for _ in range(ctx.scale(3000, 60000)):
        plain = ''.join(rng.choice(ALPH) for _ in range(rng.randint(0, 25)))
        cases.append((plain, rng.choice(ACCEPTS)))
    # accepted patterns that overlap themselves (they begin and end with the same letter), in chains of occurrences
    for _ in range(ctx.scale(300, 5000)):
        a = rng.choice('anxI')
        sep = rng.choice([' x ', ', ', ' ', ' \u00d7 ', '-', ' b '])
        pat = a + sep + a
        k = rng.randint(2, 5)
        plain = rng.choice(['', 'So ', 'c ']) + sep.join([a] * k) + rng.choice(['', ' and b.', ' ' + a, '.'])
        cases.append((plain, rng.choice([pat, pat + '|I', 'q|' + pat, pat + '||'])))
    # context window at the start and the end of a long text
    for _ in range(ctx.scale(200, 3000)):
        k = rng.randint(40, 120)
        body = ''.join(rng.choice(['word ', 'Word. ', 'xx\n']) for _ in range(k // 4))
        cases.append((rng.choice(['a ', 'I ']) + body + rng.choice([' b', ' z']), rng.choice([None, '', 'a'])))
    ctx.stats['_rule'] = ('plain texts over letters, digits, punctuation, placeholders, (narrow) no-break spaces, line breaks, non-ASCII letters and '
                          'digit-like characters x accept lists incl. multi-character patterns and trailing ||; modes displayed/inline/all for the equation '
                          'check; reference scans written from the wording; non-trivial = at least one isolated letter or placeholder in the text')
    res = ctx.pmap(run_single, cases)
    for c, r in zip(cases, res):
        ctx.case(('sl',) + c, nontrivial=bool(ref_single(c[0], c[1] if c[1] is not None else '')))
        ctx.count('single_' + r['outcome'])
        fails = judge_single(c, r)
        if fails:
            ctx.violation(fails[0], plain=c[0], accept=c[1], kind='single')
    ecases = []
    for _ in range(ctx.scale(1500, 30000)):
        plain = ''.join(rng.choice(['U-U-U', 'V-V-V', 'C-C-C', 'D-D-D', ' ', ' ', '.', ',', ';', ':', 'word', 'Word', 'and', '\n', 'x', '1', 'XU-U-U', 'U-U-Ux'])
                        for _ in range(rng.randint(1, 14)))
        ecases.append((plain, rng.choice(['displayed', 'inline', 'all', 'd', 'i', 'a'])))
    # messages that mark more than the context window is wide: a placeholder followed by a long run of white space or a long
    # capitalised word (the excerpt must still mark the same characters)
    for _ in range(ctx.scale(60, 1000)):
        ph = rng.choice(['U-U-U', 'V-V-V', 'C-C-C'])
        tail = rng.choice([' ' * rng.randint(40, 70) + '\nNext sentence.', ' ' + 'Donau' + 'dampfschifffahrts' * rng.randint(2, 4) + ' follows.',
                           ' ; ' + 'X' * rng.randint(41, 60), ' ' * 44 + 'End', '\t' * 50])
        ecases.append((rng.choice(['See ', '', 'Word word word word word word word word word word ']) + ph + tail, rng.choice(['displayed', 'inline', 'all'])))
    eres = ctx.pmap(run_eq, ecases)
    for c, r in zip(ecases, eres):
        ctx.case(('eq',) + c, nontrivial='-' in c[0])
        ctx.count('eq_' + r['outcome'])
        fails = judge_eq(c, r)
        if fails:
            ctx.violation(fails[0], plain=c[0], mode=c[1], kind='eq')
    if len(ctx.samples) < 2:
        ctx.sample({'plain': cases[0][0], 'accept': cases[0][1], 'reported': [m['offset'] for m in (res[0]['value'] or [])]})
    model_corr(ctx, cases, res)
    if ctx.model_ok:
        import corr_checks
        corr_checks.checks_corr(ctx, ctx.scale(10000, 100000))     # accept patterns and equation punctuation: Model/Checks.lean
    e2e = [{'src': gen_e2e(rng), 'multi': rng.random() < 0.7} for _ in range(ctx.scale(30, 600))]
    for c, r in zip(e2e, ctx.pmap(run_e2e, e2e)):
        ctx.case(('e2e', c['src'], c['multi']), nontrivial=True); ctx.count('e2e_rc_%d' % r['rc'])
        fails = judge_e2e(c, r)
        if fails:
            ctx.violation(fails[0], src=c['src'], multi=c['multi'], kind='e2e')
    aa = [gen_accept_all(rng) for _ in range(ctx.scale(16, 300))]
    for c, r in zip(aa, ctx.pmap(run_accept_all, aa)):
        ctx.case(('accept-all', c['text'], c['multi'], c['accept'], c['hashseed']), nontrivial=True); ctx.count('accept_all_rc_%d' % r['rc'])
        fails = judge_accept_all(c, r)
        if fails:
            ctx.violation(fails[0], kind='accept-all', case=c)

# ---- end to end: the shell's own messages are reported at their place in the LaTeX file ----------

def gen_e2e(rng):
    """words and isolated letters in the main text, in an otherlanguage environment, in \\foreignlanguage and in a footnote"""
    letters = list('bcdfghjkmnpqrtuvwxyz')
    rng.shuffle(letters)
    def words(k):
        out = []
        for _ in range(k):
            out.append('W' + ''.join(rng.choice('abcdefgh') for _ in range(rng.randint(2, 5))))
            if letters and rng.random() < 0.35:
                out.append(letters.pop())
        return ' '.join(out)
    parts = [words(rng.randint(2, 5)) + '.']
    for _ in range(rng.randint(1, 4)):
        r = rng.random()
        if r < 0.35:
            parts.append('\\begin{otherlanguage}{german}\n' + words(rng.randint(2, 5)) + '.\n\\end{otherlanguage}')
        elif r < 0.6:
            parts.append(words(2) + ' \\foreignlanguage{german}{' + words(rng.randint(2, 4)) + '} ' + words(2) + '.')
        elif r < 0.8:
            parts.append(words(2) + '\\footnote{' + words(rng.randint(2, 4)) + '.} ' + words(1) + '.')
        else:
            parts.append(words(rng.randint(2, 5)) + '.')
    src = rng.choice(['\n', '\n\n', ' ']).join(parts) + '\n'
    return src

def run_e2e(case):
    import shellrun
    args = ['--packages', 'babel', '--language', 'en-GB', '--single-letters', 'a|I', '--output', 'json']
    if case['multi']:
        args += ['--multi-language']
    return shellrun.run_shell({'files': {'t.tex': case['src']}, 'main': ['t.tex'], 'args': args, 'spec': {}})

def judge_e2e(case, r):
    import json as _j
    if r['rc'] != 0:
        return ['shell failed with exit status %d: %s' % (r['rc'], r['stderr'][-200:])]
    try:
        ms = _j.loads(r['stdout'])['matches']
    except Exception as e:
        return ['json report unreadable: %s' % e]
    tex = case['src']
    want = sorted(m.start() for m in re.finditer(r'(?<![A-Za-z\\])[b-z](?![A-Za-z])', tex))
    got = []
    for m in ms:
        if m.get('length') != 1:
            continue
        c = m.get('context') or {}
        ch = (c.get('text') or '')[c.get('offset', 0):c.get('offset', 0) + 1]
        if not ('b' <= ch <= 'z'):
            continue        # a letter of a placeholder (L-L-L of a foreign-language part): isolated in the plain text, not in the file
        o = m['offset']
        if tex[o:o + 1] != ch:
            return ['--single-letters through the shell%s: the message for the letter %r of the plain text is reported at offset %d of the file, where %r stands'
                    % (' (--multi-language)' if case['multi'] else '', ch, o, tex[max(0, o - 3):o + 4])]
        got.append(o)
    if sorted(got) != want:
        return ['--single-letters through the shell%s: messages at offsets %r, the isolated letters stand at %r'
                % (' (--multi-language)' if case['multi'] else '', sorted(got), want)]
    return []

def run_accept_all(case):
    """trailing || in --single-letters accepts every equation placeholder and, with --multi-language, every language-change placeholder"""
    import shellrun
    args = ['--plain-input', '--language', case['lang'], '--single-letters', case['accept'], '--output', 'json']
    if case['multi']:
        args += ['--multi-language']
    return shellrun.run_shell({'files': {'t.txt': case['text']}, 'main': ['t.txt'], 'args': args, 'spec': {}, 'hashseed': case['hashseed']})

def judge_accept_all(case, r):
    import json as _j
    if r['rc'] != 0:
        return ['shell failed with exit status %d: %s' % (r['rc'], r['stderr'][-200:])]
    try:
        ms = _j.loads(r['stdout'])['matches']
    except Exception as e:
        return ['json report unreadable: %s' % e]
    text = case['text']
    bad = []
    for m in ms:
        o = m.get('offset')
        if m.get('length') == 1 and isinstance(o, int) and 0 <= o < len(text):
            for ph in case['accepted']:
                k = text.find(ph)
                while k >= 0:
                    if k <= o < k + len(ph):
                        bad.append((ph, o))
                    k = text.find(ph, k + 1)
    if bad:
        return ['--single-letters %r%s: a letter of the placeholder %r (offset %d) is reported although every placeholder is accepted'
                % (case['accept'], ' --multi-language' if case['multi'] else '', bad[0][0], bad[0][1])]
    want = sorted(m_.start() for m_ in re.finditer(r'(?<![A-Za-z-])[b-z](?![A-Za-z-])', text))
    got = sorted(m['offset'] for m in ms if m.get('length') == 1)
    if got != want:
        return ['--single-letters %r: messages at %r, isolated letters outside placeholders stand at %r' % (case['accept'], got, want)]
    return []

def gen_accept_all(rng):
    m = impl.load()
    lang = rng.choice(['en-GB', 'de-DE', 'ru-RU'])
    lc = m.parameters.Parameters(lang).lang_context
    eq = list(dict.fromkeys(lc.math_repl_display + lc.math_repl_display_vowel + lc.math_repl_inline + lc.math_repl_inline_vowel))
    lg = list(dict.fromkeys(lc.lang_change_repl + lc.lang_change_repl_vowel))
    multi = rng.random() < 0.7
    phs = eq + (lg if multi else [])      # without --multi-language the language-change placeholders are ordinary text
    rng.shuffle(phs)
    words = []
    for ph in phs:
        words.append(ph)
        words.append(rng.choice(['word', 'x', 'Text,', 'q', 'and']))
    return {'text': ' '.join(words) + '\n', 'lang': lang, 'multi': multi, 'accept': rng.choice(['||', 'i. e.||', 'a|I||']),
            'accepted': eq + (lg if multi else []), 'hashseed': rng.randint(0, 50)}

def model_corr(ctx, cases, res):
    """the single-letter scan of the Lean model (accept hits taken from the implementation's own accept scan)"""
    if not ctx.model_ok:
        return
    reqs = []
    idx = []
    for i, (c, r) in enumerate(zip(cases[:ctx.scale(1500, 20000)], res)):
        if r['outcome'] != 'ok' or c[1] is None:
            continue
        hits = accept_hits(c[0], c[1])
        reqs.append(('SINGLE', 's%d' % i, [proto.enc_str(c[0])] + proto.enc_list(hits, lambda h: [str(h[0]), str(h[1])])))
        idx.append(i)
    ans = model.run_batch(reqs)
    for i in idx:
        a = ans['s%d' % i]
        ctx.corr['cases'] += 1
        got = proto.dec_nats(a[1])
        want = [m['offset'] for m in res[i]['value']]
        if got != want:
            ctx.disagree('single-letter scan: model %r / implementation %r' % (got, want), plain=cases[i][0], accept=cases[i][1])

def accept_hits(plain, accept):
    """the accept scan exactly as the code builds it (regular expression engine trusted)"""
    acc = accept
    if acc.endswith('||'):
        d, i = placeholders('en')
        acc = acc + '|'.join(sorted(set(d + i)))
    def f(s):
        s = s.replace('~', NB).replace('\\,', NNB)
        s = re.escape(s)
        if s[0].isalpha():
            s = r'\b' + s
        if s[-1].isalpha():
            s = s + r'\b'
        return '(' + s + ')'
    hits = []
    for p in [f(s) for s in acc.split('|') if s]:
        hits += [(m.start(1), m.end(1)) for m in re.finditer('(?=' + p + ')', plain)]
    return hits

def judge_witness(w):
    if w.get('kind') == 'eq':
        c = (w['plain'], w['mode'])
        return judge_eq(c, run_eq(c))
    c = (w['plain'], w['accept'])
    return judge_single(c, run_single(c))

def replay(data):
    v = data['violation']
    if v.get('kind') == 'accept-all':
        c = v['case']
        f = judge_accept_all(c, run_accept_all(c))
        print('\n'.join(f) if f else 'ok')
        return not f
    if v.get('kind') == 'e2e':
        c = {'src': v['src'], 'multi': v['multi']}
        f = judge_e2e(c, run_e2e(c))
        print('\n'.join(f) if f else 'ok')
        return not f
    f = judge_witness(data['violation'])
    print('\n'.join(f) if f else 'ok')
    return not f
