"""C02 — text copied from the document maps to exactly the offset where it stands."""
import t2t, corr, semrun, impl

OBLIGATIONS = ['Yalafi.C02_scan_slice', 'Yalafi.C02_getTxtPos_single', 'Yalafi.C02_removeLines_nonblank',
               'Yalafi.C02_verb_literal', 'Yalafi.C02_verb_example_current']

def special_table():
    m = impl.load()
    p = m.parameters.Parameters('de')
    keys = dict(p.special_tokens)
    return keys, dict(p.lang_context.short_macros), set(p.accent_macros)

_TAB = {}
def tables():
    if not _TAB:
        _TAB['t'] = special_table()
    return _TAB['t']

def judge(case, res, exp):
    fails = []
    if res['outcome'] != 'ok':
        return fails
    src, txt, pos = case['src'], res['txt'], res['pos']
    if len(txt) != len(pos):
        return ['lengths differ']
    # (1) every literal (copied) word of the document that shows up in the output carries its own offsets
    where = {}
    for w in case['words']:
        if w['role'] in ('copy', 'detached'):
            where.setdefault(w['w'], []).append(w['start'])
    body = {w['w'] for w in case['words'] if w['role'] == 'body'}
    for w, i in semrun.out_words(txt):
        if w in where and w not in body and len(where[w]) == 1:
            st = where[w][0]
            want = list(range(st + 1, st + 1 + len(w)))
            if pos[i:i + len(w)] != want:
                fails.append('word %r stands at offset %d but maps to %r' % (w, st + 1, pos[i:i + len(w)]))
                break
    # (2) every character of a position-counting token is a copy of the source character it maps to, or the
    #     token is the table replacement of a sequence that starts there
    special, short, accents = tables()
    if res.get('toks'):
        for (kind, p, fix, t, extra) in res['toks']:
            if fix or len(t) < 2 or kind == 'lang':
                continue       # a one-character token is position-fixed by nature (generated '.', ' ', ']' …)
            if src[p:p + len(t)] == t:
                continue
            ok = False
            for k, v in special.items():
                if v == t and src.startswith(k, p):
                    ok = True
            if src[p:p + 1] == '\\' and any(src.startswith(a, p) for a in accents):
                ok = True          # accent macro: result maps to the first character of the sequence
            if t == ' ' and src.startswith('\\\\', p):
                ok = True
            if not ok:
                fails.append('position-counting token %r at offset %d is neither a copy of %r nor a table replacement' % (t, p + 1, src[p:p + len(t) + 2]))
                break
    return fails

def run(ctx):
    n = ctx.scale(900, 25000)
    rng = ctx.rng
    cases = [semrun.make_case(rng, profile={'accent_rest': True} if i % 3 == 0 else None) for i in range(n)]
    cases += [semrun.crlf_variant(c) for c in cases[::5]]
    for c in cases[1::6]:
        # phrase replacement that lengthens a word of the document: everything else still stands where it stood
        ws = [w['w'] for w in c['words'] if w['role'] == 'copy']
        if ws:
            w = rng.choice(ws)
            c['opts'] = dict(c['opts'], repl=[w + ' & ' + w + rng.choice([' zum Beispiel', ' x', ' ' + 'y' * 10])])
    ctx.stats['_rule'] = ('well-formed G-doc documents in random layouts, a fifth of them also with CR LF line breaks; every occurrence of a unique literal word in the output must carry the '
                          'offsets where the AST renderer put it; every position-counting token of the final token list must be a literal slice of the '
                          'source or a table replacement; non-trivial = at least 3 literal words in the output')
    results = semrun.run_cases(ctx, cases)
    for c, r in zip(cases, results):
        nw = len(semrun.out_words(r.get('txt') or ''))
        ctx.case(c['src'], nontrivial=nw >= 3)
        ctx.count('outcome_' + r['outcome']); ctx.count('words_checked', nw)
        fails = judge(c, r, None)
        if fails:
            if accent_verb_class(c['src']) and any(k['id'] == 'accent-multichar-arg' for k in ctx.known):
                ctx.known_hits.setdefault('accent-multichar-arg', {'what': next(k['line'] for k in ctx.known if k['id'] == 'accent-multichar-arg'), 'count': 0})['count'] += 1
                continue
            ctx.violation(fails[0], src=c['src'], opts=c['opts'], all=fails[:3], case=semrun.pack(c))
        if len(ctx.samples) < 3:
            ctx.sample({'src': c['src'][:300], 'out': (r.get('txt') or '')[:200]})
    corr.t2t(ctx, cases, results, proj=('outcome', 'toks', 'text'), limit=ctx.scale(900, 20000))
    corr.leaf_corr(ctx, [dict(c, cap_lines=0) for c in cases], results, want=('scan', 'txtpos'), limit=ctx.scale(300, 3000))

def accent_verb_class(src):
    import re
    return re.search(r'\\[\'`^"~=.cvuHrkdb]\s*\{?\s*\\verb', src) is not None

def judge_witness(w):
    c = {'src': w['src'], 'opts': w.get('opts') or {}, 'multi': False, 'words': []}
    return judge(c, t2t.run_case(c), None)

def rejudge(c):
    return judge(c, semrun.run_one(c), None)

def replay(data):
    if data['violation'].get('case'):
        f = rejudge(semrun.unpack(data['violation']['case']))
        print('\n'.join(f) if f else 'ok')
        return not f
    f = judge_witness(data['violation'])
    print('\n'.join(f) if f else 'ok (token-level oracle; the word-level oracle needs the AST)')
    return not f
