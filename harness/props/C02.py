"""C02 — text copied from the document maps to exactly the offset where it stands."""
import t2t, corr, semrun, impl

OBLIGATIONS = ['Yalafi.C02_scan_slice', 'Yalafi.C02_getTxtPos_single', 'Yalafi.C02_removeLines_nonblank',
               'Yalafi.C02_verb_literal', 'Yalafi.C02_verb_example_current',
               'Yalafi.C02_replaced_e2e', 'Yalafi.C02_accent_e2e', 'Yalafi.C02_accent_single', 'Yalafi.C02_shorthand_e2e', 'Yalafi.C02_replaced_first_char', 'Yalafi.C02_accent_e2e_current', 'Yalafi.C02_accent_example_current', 'Yalafi.C02_accent_example_eval', 'Yalafi.Generated.initParser_de', 'Yalafi.C02_shorthand_table_current', 'Yalafi.C02_shorthand_e2e_current', 'Yalafi.C02_shorthand_example_current', 'Yalafi.C02_shorthand_example_eval', 'Yalafi.C02_unknown_args_positions']

def special_table():
    m = impl.load()
    p = m.parameters.Parameters('de')
    keys = dict(p.special_tokens)
    return keys, dict(p.lang_context.short_macros), set(p.accent_macros)

_TAB = {}
def tables():
    if not _TAB:
        _TAB['t'] = special_table()
    return _TAB['t']

def judge(case, res, exp):
    fails = []
    if res['outcome'] != 'ok':
        return fails
    src, txt, pos = case['src'], res['txt'], res['pos']
    if len(txt) != len(pos):
        return ['lengths differ']
    # (1) every literal (copied) word of the document that shows up in the output carries its own offsets
    where = {}
    for w in case['words']:
        if w['role'] in ('copy', 'detached'):
            where.setdefault(w['w'], []).append(w['start'])
    body = {w['w'] for w in case['words'] if w['role'] == 'body'}
    for w, i in semrun.out_words(txt):
        if w in where and w not in body and len(where[w]) == 1:
            st = where[w][0]
            want = list(range(st + 1, st + 1 + len(w)))
            if pos[i:i + len(w)] != want:
                fails.append('word %r stands at offset %d but maps to %r' % (w, st + 1, pos[i:i + len(w)]))
                break
    # (2) every character of a position-counting token is a copy of the source character it maps to, or the
    #     token is the table replacement of a sequence that starts there
    special, short, accents = tables()
    if res.get('toks'):
        for (kind, p, fix, t, extra) in res['toks']:
            if fix or len(t) < 2 or kind == 'lang':
                continue       # a one-character token is position-fixed by nature (generated '.', ' ', ']' …)
            if src[p:p + len(t)] == t:
                continue
            ok = False
            for k, v in special.items():
                if v == t and src.startswith(k, p):
                    ok = True
            if src[p:p + 1] == '\\' and any(src.startswith(a, p) for a in accents):
                ok = True          # accent macro: result maps to the first character of the sequence
            if t == ' ' and src.startswith('\\\\', p):
                ok = True
            if not ok:
                fails.append('position-counting token %r at offset %d is neither a copy of %r nor a table replacement' % (t, p + 1, src[p:p + len(t) + 2]))
                break
    return fails

def run(ctx):
    n = ctx.scale(900, 25000)
    rng = ctx.rng
    cases = [semrun.make_case(rng, profile={'accent_rest': True} if i % 3 == 0 else None) for i in range(n)]
    cases += [semrun.crlf_variant(c) for c in cases[::5]]
    for c in cases[1::6]:
        # phrase replacement that lengthens a word of the document: everything else still stands where it stood
        ws = [w['w'] for w in c['words'] if w['role'] == 'copy']
        if ws:
            w = rng.choice(ws)
            c['opts'] = dict(c['opts'], repl=[w + ' & ' + w + rng.choice([' zum Beispiel', ' x', ' ' + 'y' * 10])])
    ctx.stats['_rule'] = ('well-formed G-doc documents in random layouts, a fifth of them also with CR LF line breaks; every occurrence of a unique literal word in the output must carry the '
                          'offsets where the AST renderer put it; every position-counting token of the final token list must be a literal slice of the '
                          'source or a table replacement; non-trivial = at least 3 literal words in the output')
    results = semrun.run_cases(ctx, cases)
    for c, r in zip(cases, results):
        nw = len(semrun.out_words(r.get('txt') or ''))
        ctx.case(c['src'], nontrivial=nw >= 3)
        ctx.count('outcome_' + r['outcome']); ctx.count('words_checked', nw)
        fails = judge(c, r, None)
        if fails:
            if accent_verb_class(c['src']) and any(k['id'] == 'accent-multichar-arg' for k in ctx.known):
                ctx.known_hits.setdefault('accent-multichar-arg', {'what': next(k['line'] for k in ctx.known if k['id'] == 'accent-multichar-arg'), 'count': 0})['count'] += 1
                continue
            ctx.violation(fails[0], src=c['src'], opts=c['opts'], all=fails[:3], case=semrun.pack(c))
        if len(ctx.samples) < 3:
            ctx.sample({'src': c['src'][:300], 'out': (r.get('txt') or '')[:200]})
    mc = ml_cases(rng, ctx.scale(400, 8000))
    mres = ctx.pmap(t2t.run_case, mc)
    for c, r in zip(mc, mres):
        ctx.case(c['src']); ctx.count('multi_language_docs')
        f = judge_ml(c, r)
        if f:
            ctx.violation(f[0], src=c['src'], opts=c['opts'], multi=True, thresh=c['thresh'], ml=True)
    corr.t2t(ctx, mc, mres, proj=('outcome', 'toks', 'text'), limit=len(mc))
    rc = replaced_cases(rng)
    rres = ctx.pmap(t2t.run_case, rc)
    for c, r in zip(rc, rres):
        ctx.case(c['src']); ctx.count('replaced_' + c['what'][0])
        f = judge_replaced(c, r)
        if f:
            ctx.violation(f[0], src=c['src'], opts=c['opts'], replaced={'seq': c['seq'], 'at': c['at'], 'what': list(c['what'])})
    corr.t2t(ctx, cases + rc, results + rres, proj=('outcome', 'toks', 'text'), limit=ctx.scale(900, 20000) + len(rc))
    corr.leaf_corr(ctx, [dict(c, cap_lines=0) for c in cases], results, want=('scan', 'txtpos'), limit=ctx.scale(300, 3000))

REPLACED_SPECIALS = ['--', '---', '``', "''", '~', '\\,', '\\%', '\\&', '\\$', '\\#', '\\_', '\\{', '\\}']

def replaced_cases(rng):
    """a replaced sequence maps to the first character of the sequence it replaces: every documented special
    sequence, accent macros with a letter, and every "-shorthand of the German table, between two words, glued to
    them, in a group, as a macro argument, in a footnote and a heading, at the start and at the very end of the text"""
    import gen
    m = impl.load()
    out = []
    def frames(seq, lang, what):
        a = 'Q' + ''.join(rng.choice('abcdefghij') for _ in range(3))
        b = 'Q' + ''.join(rng.choice('klmnopqrs') for _ in range(3))
        for pre, post in ((a + ' ', ' ' + b), (a, b), ('', b), (a + ' ', ''), (a + ' {', '} ' + b), (a + ' \\textbf{', '} ' + b),
                          (a + '\n', '\n' + b), ('\\footnote{' + a, b + '}'), ('\\section{' + a + ' ', ' ' + b + '}')):
            out.append({'src': pre + seq + post, 'opts': {'lang': lang, 'pack': '*'}, 'multi': False, 'words': [],
                        'kind': 'replaced', 'seq': seq, 'at': len(pre), 'what': what})
    for lang in ('de', 'de-AT'):
        for k, v in dict(m.parameters.Parameters(lang).lang_context.short_macros).items():
            frames(k, lang, ('short', v))
    sp = dict(m.parameters.Parameters('en').special_tokens)
    for k in REPLACED_SPECIALS:
        if k in sp:
            frames(k, rng.choice(['en', 'de']), ('special', sp[k]))
    import unicodedata
    def two(name, letter):
        try:
            nm = {"\\~": 'TILDE'}.get(name)
            return nm is not None and len(unicodedata.lookup('LATIN %s LETTER %s WITH %s' % ('SMALL' if letter.islower() else 'CAPITAL', letter.upper(), nm))) > 1
        except KeyError:
            return False
    multi = [(a, l) for a in ("\\~",) for l in 'lmrJLMR' if two(a, l)]
    for name, letter in multi + rng.sample(gen.VALID_ACCENTS, min(30, len(gen.VALID_ACCENTS))):
        frames(name + '{' + letter + '}', rng.choice(['en', 'de']), ('accent', None))
    return out

def judge_replaced(case, res):
    """the characters the sequence turns into all carry the offset of its first character"""
    if res['outcome'] != 'ok':
        return ['outcome %s for %r' % (res['outcome'], case['src'])]
    txt, pos, at, seq = res['txt'], res['pos'], case['at'], case['seq']
    kind, val = case['what']
    if len(txt) != len(pos):
        return ['lengths differ']
    if kind == 'accent':
        idx = [i for i, p in enumerate(pos) if at + 1 <= p <= at + len(seq)]
        # (every character of the result -- a letter and a combining mark for \\~{l} -- carries the offset of the backslash)
        if not idx or any(pos[i] != at + 1 for i in idx):
            return ['accent sequence %r at offset %d: result %r maps to %r, not to the first character of the sequence' % (seq, at + 1, ''.join(txt[i] for i in idx), [pos[i] for i in idx])]
        return []
    if val.strip() == '':
        return []             # a blank / empty replacement may be merged with neighbouring white space
    hits = [i for i in range(len(txt) - len(val) + 1)
            if txt.startswith(val, i) and all(pos[i + d] == at + 1 for d in range(len(val)))]
    if not hits:
        return ['sequence %r at offset %d (-> %r): no occurrence of the replacement maps to the first character of the sequence; text %r positions %r'
                % (seq, at + 1, val, txt, pos)]
    return []

def ml_cases(rng, n):
    """multi-language mode: words of the main text and of short / long foreign insertions, with every amount of white
    space at both ends of the insertion (none, one blank, two blanks, blank + line break, tab): every copied word of
    every part stands in the source at the offsets it is mapped to"""
    out = []
    WS = ['', ' ', '  ', ' \n', '\n ', '\t', '   ', ' \n  ']
    names = ['german', 'russian', 'french', 'english']
    def w():
        return 'Q' + ''.join(rng.choice('abcdefghijklmnopqrstuvwxyz') for _ in range(rng.randint(2, 5)))
    for _ in range(n):
        parts = ['\\usepackage{babel}\n']
        for _ in range(rng.randint(1, 3)):
            parts.append(' '.join(w() for _ in range(rng.randint(1, 4))) + rng.choice([' ', '\n', '']))
            k = rng.choice([1, 1, 2, 3, 3, 6])
            body = rng.choice(WS) + ' '.join(w() for _ in range(k)) + rng.choice(WS)
            if rng.random() < 0.75:
                parts.append('\\foreignlanguage{%s}{%s}' % (rng.choice(names), body))
            else:
                parts.append('\\begin{otherlanguage*}{%s}%s\\end{otherlanguage*}' % (rng.choice(names), body))
            parts.append(rng.choice(['', ' ', '\n']) + ' '.join(w() for _ in range(rng.randint(1, 3))) + rng.choice(['. ', '.\n', ' ']))
        out.append({'src': ''.join(parts), 'opts': {'lang': rng.choice(['en-GB', 'de-DE', 'ru-RU']), 'pack': '*'}, 'multi': True,
                    'thresh': rng.choice([0, 1, 2, 3, 3, 5]), 'kind': 'ml-copy', 'words': []})
    return out

def judge_ml(case, res):
    if res['outcome'] != 'ok':
        return []
    src = case['src']
    for lang, ps in res['parts']:
        for (t, p) in ps:
            if len(t) != len(p):
                return ['part of %s: text and position list differ in length (%d, %d)' % (lang, len(t), len(p))]
            for wd, i in semrun.out_words(t):
                if src.count(wd) == 1:
                    st = src.index(wd)
                    if p[i:i + len(wd)] != list(range(st + 1, st + 1 + len(wd))):
                        return ['multi-language part %s: word %r stands at offset %d but maps to %r' % (lang, wd, st + 1, p[i:i + len(wd)])]
    return []

def accent_verb_class(src):
    import re
    return re.search(r'\\[\'`^"~=.cvuHrkdb]\s*\{?\s*\\verb', src) is not None

def judge_witness(w):
    if w.get('ml'):
        c = {'src': w['src'], 'opts': w.get('opts') or {}, 'multi': True, 'thresh': w.get('thresh', 3), 'words': []}
        return judge_ml(c, t2t.run_case(c))
    if w.get('replaced'):
        c = {'src': w['src'], 'opts': w.get('opts') or {}, 'multi': False, 'words': [], 'seq': w['replaced']['seq'],
             'at': w['replaced']['at'], 'what': tuple(w['replaced']['what'])}
        return judge_replaced(c, t2t.run_case(c))
    c = {'src': w['src'], 'opts': w.get('opts') or {}, 'multi': False, 'words': []}
    return judge(c, t2t.run_case(c), None)

def rejudge(c):
    return judge(c, semrun.run_one(c), None)

def replay(data):
    if data['violation'].get('case'):
        f = rejudge(semrun.unpack(data['violation']['case']))
        print('\n'.join(f) if f else 'ok')
        return not f
    f = judge_witness(data['violation'])
    if data['violation'].get('replaced') or data['violation'].get('ml'):
        print('\n'.join(f) if f else 'ok')
        return not f
    print('\n'.join(f) if f else 'ok (token-level oracle; the word-level oracle needs the AST)')
    return not f
