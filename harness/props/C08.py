"""C08 — LaTeX problems yield the full error mark at the right place, and only then."""
import re
import t2t, corr, semrun, gen, impl

OBLIGATIONS = ['Yalafi.C08_latexError_mark', 'Yalafi.C08_latexError_inRange', 'Yalafi.C08_lineCol', 'Yalafi.C08_scanVerb_mark', 'Yalafi.C08_scanVerbatim_mark',
               'Yalafi.C08_verb_unterminated', 'Yalafi.C08_verb_segments',
               'Yalafi.C08_math_unterminated', 'Yalafi.C08_math_unterminated_end', 'Yalafi.C08_math_segments', 'Yalafi.C08_math_mark_complete', 'Yalafi.C08_math_text_kept', 'Yalafi.C08_math_silent', 'Yalafi.C08_math_current_facts', 'Yalafi.C08_math_ref_current', 'Yalafi.C08_math_unterminated_current', 'Yalafi.C08_math_unterminated_end_current',
               'Yalafi.C08_accent_nonletter', 'Yalafi.C08_mark_shape', 'Yalafi.C08_arg_open', 'Yalafi.C08_arg_open_footnote', 'Yalafi.C08_verbatim_unterminated', 'Yalafi.C08_skip_unclosed', 'Yalafi.C08_input_unreadable', 'Yalafi.C08_accent_current_facts', 'Yalafi.C08_accent_nonletter_current', 'Yalafi.C08_accent_eval_current', 'Yalafi.C08_arg_open_current_facts', 'Yalafi.C08_arg_open_current', 'Yalafi.C08_arg_open_footnote_current', 'Yalafi.C08_arg_open_eval_current', 'Yalafi.C08_fault_current_facts', 'Yalafi.C08_verbatim_unterminated_current', 'Yalafi.C08_skip_unclosed_current', 'Yalafi.C08_input_unreadable_current', 'Yalafi.C08_fault_eval_current']

SILENT = {'c_group', 'c_unknown', 'c_vanish', 'c_ref', 'c_inline_math', 'c_verb', 'c_cite', 'c_footnote', 'c_heading', 'c_itemize',
          'c_display', 'c_env_unknown', 'c_verbatim', 'c_skip', 'c_newcommand', 'c_usermacro', 'c_special', 'c_symbol', 'c_lt',
          'c_foreign', 'c_theorem', 'c_proof', 'c_env_known', 'c_hspace', 'c_linebreak', 'c_caption_fig'}

MARK = {}
def mark():
    if not MARK:
        m = impl.load()
        MARK['m'] = ' ' + m.parameters.Parameters('').mark_latex_error + ' '
    return MARK['m']

def linecol(src, pos):
    return src.count('\n', 0, pos) + 1, pos - (src.rfind('\n', 0, pos) + 1) + 1

def words(rng, n):
    names = gen.Names(rng)
    return [names.word() for _ in range(n)]

def fault_case(rng):
    """prefix words, one faulty construct, words in the same paragraph, blank line, tail words"""
    w = words(rng, 9)
    pre = ' '.join(w[:3]) + rng.choice([' ', '\n', '\n\n'])
    if rng.random() < 0.25:
        # white space that str.splitlines() would break at, but that is no line break for the filter and its diagnostics
        x = rng.choice(['\x0c', '\x0b', '\x1c', '\x1d', '\x1e', '\x85', '\u2028', '\u2029', '\r'])
        pre = w[0] + rng.choice([x, ' ' + x, x + ' ']) + w[1] + ' ' + w[2] + rng.choice([' ', '\n', '\n\n', ' ' + x + ' '])
    kind = rng.choice(['maths', 'maths2', 'display', 'arg', 'optarg', 'verbatim', 'verb', 'skip', 'accent', 'input', 'badfile', 'display-sep'])
    same = ' '.join(w[3:6])
    tail = '\n\n' + ' '.join(w[6:9]) + rng.choice(['', '\n'])
    must = set()
    if kind in ('maths', 'maths2'):
        op = '$' if kind == 'maths' else '\\('
        fault = op + 'x+1 '
        src = pre + fault + same + tail
        pos = len(pre)
        must = set(w[:3]) | set(w[6:9])
        msg = 'missing end of maths'
    elif kind == 'display':
        fault = rng.choice(['\\[', '\\begin{equation}']) + ' a = b '
        src = pre + fault + same + tail
        pos = len(pre); must = set(w[:3]) | set(w[6:9]); msg = 'missing end of maths'
    elif kind == 'display-sep':
        # the text ends directly behind a section separator of an open displayed equation
        fault = rng.choice(['\\[', '\\begin{equation}', '\\begin{align}', '$$']) + ' a ' + rng.choice(['\\\\', '&', '\\\\[2ex]', '= b &', 'x \\\\'])
        src = pre + fault
        same, tail = '', ''
        pos = len(pre); must = set(w[:3]); msg = 'missing end of maths'
    elif kind == 'arg':
        name = rng.choice(['\\footnote', '\\section', '\\textbf', '\\caption', '\\label', '\\ref', '\\index', '\\begin', '\\end', '\\cite', '\\pageref', '\\vspace'])
        if name == '\\textbf':       # an undeclared macro does not parse arguments: the brace simply opens a group
            name = '\\footnote'
        fault = name + '{'
        src = pre + fault + same + tail
        pos = len(pre) + len(name); must = set(w); msg = 'cannot find closing "}"'
    elif kind == 'optarg':
        fault = '\\cite['
        src = pre + fault + same + ' {K}' + tail
        pos = len(pre) + 5; must = set(w); msg = 'cannot find closing "]"'
    elif kind == 'verbatim':
        fault = '\\begin{verbatim}\n'
        src = pre + fault + same + tail
        pos = len(pre); must = set(w); msg = 'missing end of verbatim'
    elif kind == 'verb':
        fault = '\\verb|abc'
        src = pre + fault + '\n' + same + tail
        pos = len(pre); must = set(w); msg = 'bad \\verb argument'
    elif kind == 'skip':
        fault = '%%% LT-SKIP-BEGIN\n'
        src = pre + fault + same + tail
        pos = len(pre); must = set(w); msg = 'cannot find closing LaTeX comment'
    elif kind == 'accent':
        fault = rng.choice(["\\'1", '\\"{2}', '\\^ 3', '\\c{?}'])
        src = pre + fault + ' ' + same + tail
        pos = len(pre); must = set(w); msg = 'text-mode accent for non-letter'
    elif kind == 'badfile':
        fault = '\\LTinput{latin1.tex}'
        src = pre + fault + ' ' + same + tail
        pos = len(pre); must = set(w); msg = 'could not read file'
        badfile = {'latin1.tex': {'hex': rng.choice(['e4f6fc20', 'fffe4100', '5c6e6577636f6d6d616e647b5c717d7be97d0a', 'c3'])}}
    else:
        fault = '\\LTinput{nofile.tex}'
        src = pre + fault + ' ' + same + tail
        pos = len(pre); must = set(w); msg = 'could not read file'
    # optionally cut the text right behind the faulty construct (mark longer than the rest of the text)
    if rng.random() < 0.35 and kind not in ('optarg', 'display-sep'):
        cut = len(pre) + len(fault)
        src = src[:cut]
        must = set(w[:3])
    files = None
    if kind == 'badfile':
        files = dict(badfile)
    elif rng.random() < 0.25:
        # definitions read from a file earlier in the document (also an empty file) must not disturb error reporting
        inp = '\\LTinput{e.tex}' + rng.choice(['\n', ' ', '\n\n'])
        src = inp + src
        pos += len(inp)
        files = {'e.tex': rng.choice(['', '', '\\newcommand{\\qq}{Q}\n', '% nothing\n', ' '])}
    opts = {'pack': '*', 'lang': rng.choice(['', 'de'])}
    if kind in ('display', 'display-sep', 'maths', 'arg') and rng.random() < 0.3:
        opts['seqs'] = True            # simple replacement of displayed equations: the mark must survive
    return {'src': src, 'opts': opts, 'multi': False, 'kind': 'fault:' + kind,
            'fault_pos': pos, 'must': sorted(must), 'msg': msg, 'files': files}

def judge_fault(case, res):
    if res['outcome'] == 'crash':
        return ['the problem (%s) ends the filter in %s instead of a diagnostic and an error mark' % (case['msg'], res.get('exc'))]
    if res['outcome'] != 'ok':
        return []
    src, txt, pos = case['src'], res['txt'], res['pos']
    diags = impl.parse_stderr(res['stderr'])
    fails = []
    lc = linecol(src, case['fault_pos'])
    hit = [d for d in diags if (d[0], d[1]) == lc and d[2].startswith(case['msg'])]
    if not hit:
        fails.append('no diagnostic %r at line %d, column %d (got %r)' % (case['msg'], lc[0], lc[1], diags[:3]))
    mk = mark()
    idx = [m.start() for m in re.finditer(re.escape(mk), txt)]
    if not idx:
        fails.append('the complete error mark %r is not in the output %r' % (mk, txt[-40:]))
    elif not any(pos[i] == case['fault_pos'] + 1 for i in idx):
        fails.append('no error mark starts at the position of the problem %d (marks map to %r)' % (case['fault_pos'] + 1, [pos[i] for i in idx]))
    got = {w for w, _ in semrun.out_words(txt)}
    lost = [w for w in case['must'] if w not in got]
    if lost:
        fails.append('text beyond the faulty construct is lost: %r' % lost[:4])
    return fails

VERB_CONTENT = ['[', ']', '*', '{', '}', '$', '&', '[x]', '%', '~', '--', '\\\\']

def verb_lookahead_cases(rng):
    """well-formed documents in which \\verb material stands where the parser looks ahead for an argument or a terminator:
    behind \\\\, \\item, macros with a trailing optional or starred argument, in inline and displayed maths"""
    out = []
    frames = ['Qa \\\\ %s Qb', 'Qa \\\\%s Qb', '\\begin{itemize}\\item %s Qb\\end{itemize}', '\\begin{enumerate}\\item%s Qb\\end{enumerate}',
              'Qa \\footnotemark %s Qb', 'Qa \\LaTeX %s Qb', 'Qa \\newline %s Qb', 'Qa \\linebreak %s Qb', 'Qa \\begin{proof} %s Qb\\end{proof}',
              'Qa $x %s y$ Qb', 'Qa \\(x %s\\) Qb', 'Qa\n\\[ a = %s b \\]\nQb', 'Qa\n\\begin{align} a &= %s \\\\ c &= d \\end{align}\nQb',
              'Qa \\textbf{x %s} Qb', 'Qa \\footnote{%s} Qb', 'Qa %s Qb']
    for fr in frames:
        for c in VERB_CONTENT:
            d = '|' if '|' not in c else '+'
            v = '\\verb' + d + c + d
            out.append({'src': fr % v, 'opts': {'pack': '*', 'lang': rng.choice(['', 'de'])}, 'multi': False, 'kind': 'verb-lookahead',
                        'content': c, 'maths': ('$' in fr or '\\(' in fr or '\\[' in fr or 'align' in fr)})
    return out

def judge_verb_lookahead(case, res):
    f = judge_silent(case, res)
    if f or res['outcome'] != 'ok':
        return f
    if not case['maths'] and case['content'] not in res['txt']:
        return ['verbatim material %r of the well-formed document %r is missing in the output %r' % (case['content'], case['src'], res['txt'])]
    for w in ('Qa', 'Qb'):
        if w in case['src'] and w not in res['txt']:
            return ['text %r behind / in front of the verbatim material is lost: %r -> %r' % (w, case['src'], res['txt'])]
    return []

def judge_silent(case, res):
    if res['outcome'] != 'ok':
        return []
    fails = []
    if res['stderr'].strip():
        fails.append('diagnostic on a well-formed document: %r' % res['stderr'][:120])
    if mark().strip() in res['txt']:
        fails.append('error mark in the output of a well-formed document')
    return fails

def run(ctx):
    rng = ctx.rng
    n = ctx.scale(700, 20000)
    silent = [semrun.make_case(rng, profile={'only': SILENT, 'heading_footnotes': False}) for _ in range(n)]
    faults = [fault_case(rng) for _ in range(ctx.scale(1500, 30000))]
    ctx.stats['_rule'] = ('(a) well-formed G-doc documents over the catalogue: empty stderr, no mark; (b) single faults (unterminated inline/displayed '
                          'maths, open mandatory/optional argument, unterminated verbatim / \\verb, unclosed skip comment, accent on a non-letter, '
                          'unreadable \\LTinput) at every place incl. the very end of the text: diagnostic at the line/column of the problem, complete '
                          'mark whose first character maps there, later text preserved; non-trivial = fault case')
    rs = semrun.run_cases(ctx, silent)
    for c, r in zip(silent, rs):
        ctx.case(c['src'], nontrivial=False); ctx.count('silent_' + r['outcome'])
        f = judge_silent(c, r)
        if f:
            ctx.violation(f[0], src=c['src'], opts=c['opts'], kind='silent')
    vl = verb_lookahead_cases(rng)
    for c, r in zip(vl, ctx.pmap(t2t.run_case, vl)):
        ctx.case(c['src'], nontrivial=False); ctx.count('verb_lookahead')
        f = judge_verb_lookahead(c, r)
        if f:
            ctx.violation(f[0], src=c['src'], opts=c['opts'], kind='verb-lookahead', content=c['content'], maths=c['maths'])
    silent = silent + vl
    rs = rs + ctx.pmap(t2t.run_case, vl)
    rf = ctx.pmap(t2t.run_case, [{k: v for k, v in c.items() if k not in ('must',)} for c in faults])
    for c, r in zip(faults, rf):
        ctx.case(c['src'], nontrivial=True); ctx.count(c['kind'])
        f = judge_fault(c, r)
        if f:
            ctx.violation(f[0], src=c['src'], opts=c['opts'], kind=c['kind'], fault_pos=c['fault_pos'], must=c['must'], msg=c['msg'], all=f)
        if len(ctx.samples) < 4:
            ctx.sample({'src': c['src'], 'stderr': r['stderr'][:100], 'out': r.get('txt')})
    corr.t2t(ctx, faults + silent, rf + rs, proj=('outcome', 'toks', 'diags'), limit=ctx.scale(2000, 40000))
    corr.leaf_corr(ctx, faults, rf, want=('latexerr', 'scan'), limit=ctx.scale(300, 3000))

def judge_witness(w):
    if w.get('kind') == 'verb-lookahead':
        c = dict(w, opts=w.get('opts') or {}, multi=False)
        return judge_verb_lookahead(c, t2t.run_case({k: v for k, v in c.items() if k not in ('content', 'maths')}))
    c = dict(w, opts=w.get('opts') or {}, multi=False)
    r = t2t.run_case({k: v for k, v in c.items() if k != 'must'})
    if 'fault_pos' in w:
        return judge_fault(c, r)
    return judge_silent(c, r)

def replay(data):
    f = judge_witness(data['violation'])
    print('\n'.join(f) if f else 'ok')
    return not f
