"""C10 — inline maths becomes one rotating placeholder with its punctuation, nothing else."""
import re
import t2t, corr, semrun, gen, impl, mlmath

OBLIGATIONS = ['Yalafi.C10_rot_length', 'Yalafi.C10_rot_perm', 'Yalafi.C10_rot_head', 'Yalafi.C10_detectParts_tok', 'Yalafi.C10_inline_shape', 'Yalafi.C10_inline_shape_tokens',
               'Yalafi.C10_inline_math_e2e', 'Yalafi.C10_current_facts', 'Yalafi.C10_example_current',
               'Yalafi.C10_inline_rich_e2e', 'Yalafi.C10_rich_no_source', 'Yalafi.C10_rich_span', 'Yalafi.C10_rich_rotation', 'Yalafi.C10_inline_rich_e2e_current', 'Yalafi.C10_rich_example_current', 'Yalafi.C10_rich_example_output', 'Yalafi.C10_rich_example_eval', 'Yalafi.C10_rich_example2_current', 'Yalafi.C10_rich_only_space_eval']

ONLY = {'c_group', 'c_unknown', 'c_vanish', 'c_ref', 'c_inline_math', 'c_footnote', 'c_itemize', 'c_env_unknown', 'c_cite', 'c_foreign'}

_LANG = {}
def inline_list(lang):
    if lang not in _LANG:
        m = impl.load()
        p = m.parameters.Parameters(lang)
        _LANG[lang] = (list(p.lang_context.math_repl_inline), list(p.math_punctuation), list(p.math_space))
    return _LANG[lang]

def judge(case, res, exp):
    fails = []
    if res['outcome'] != 'ok':
        return fails
    if res['stderr']:
        return ['diagnostic on a well-formed document: %r' % res['stderr'][:100]]
    src, txt, pos = case['src'], res['txt'], res['pos']
    repl, punct, mspace = inline_list(case['opts'].get('lang') or '')
    forms = exp.formulas
    spans = [(a, b) for (t, a, b) in case['spans'] if t == 'imath']
    byspan = {}
    for i, p in enumerate(pos):
        for (a, b) in spans:
            if a + 1 <= p <= b:
                byspan.setdefault((a, b), []).append(i)
                break
    # formulas in expansion order; each formula node is rendered once in the source: map node -> span by order of rendering
    node_span = {}
    imath_nodes = []
    def collect(n):
        if isinstance(n, dict):
            if n.get('t') == 'imath':
                imath_nodes.append(n)
            for k, v in n.items():
                if k != 'm':
                    collect(v)
        elif isinstance(n, list):
            for x in n:
                collect(x)
    collect(case['ast'])
    spans_sorted = sorted(spans)
    for nd, sp in zip(imath_nodes, spans_sorted):     # the renderer walks the AST in the same order
        node_span[id(nd)] = sp
    seen_render = {}
    for k, f in enumerate(forms):
        sp = node_span.get(id(f))
        if sp is None:
            continue
        idx = byspan.get(sp, [])
        out = ''.join(txt[i] for i in idx if txt[i] != '\n')     # separators of a detached flow may be anchored at the formula
        want_ph = repl[(k + 1) % len(repl)]
        inner = src[sp[0]:sp[1]]
        inner = inner[1:-1] if inner.startswith('$') else inner[2:-2]
        SP = ['\\,', '\\;', '~', '\\ ', '\\:', '\\quad', '\\qquad']
        def starts_sp(x):
            x = x.lstrip(' ')
            return any(x.startswith(k) for k in SP)
        def strip_sp_end(x):
            changed = True
            had = False
            while changed:
                changed = False
                x = x.rstrip(' ')
                for k in sorted(SP, key=len, reverse=True):
                    if x.endswith(k) and not (k == '~' and False):
                        # '\\ ' ends with a blank that rstrip removed: handle '\\' + blank
                        x = x[:-len(k)]; changed = True; had = True
                        break
                else:
                    if x.endswith('\\') and not x.endswith('\\\\'):
                        x = x[:-1]; changed = True; had = True
            return x, had
        core, ends = strip_sp_end(inner)
        lead = ' ' if starts_sp(inner) else ''
        trail = ' ' if ends else ''
        pc = core[-1] if core and core[-1] in punct else ''
        want = lead + want_ph + pc + trail
        n_exp = sum(1 for g in forms if g is f)
        if n_exp > 1:
            continue       # a formula inside an argument that is expanded more than once
        if out != want:
            fails.append('formula %r (number %d in expansion order) is rendered %r, expected %r' % (
                src[sp[0]:sp[1]], k + 1, out, want))
            break
    # no character of a formula source survives: everything mapped into a formula span is placeholder/punct/blank (checked above),
    # and the formula bodies use symbols that cannot come from elsewhere
    for bad in ('\\alpha', '\\frac', '\\sqrt', '\\sum', 'f(x)', '\\mathbb', '\\beta', '\\xi', '^2', '_{'):
        if bad in txt:
            fails.append('maths source %r appears in the output' % bad); break
    return fails

def run(ctx):
    n = ctx.scale(900, 25000)
    rng = ctx.rng
    cases = []
    for _ in range(n):
        c = semrun.make_case(rng, profile={'only': ONLY, 'heading_footnotes': False},
                             opts={'lang': rng.choice(['', 'en', 'de', 'ru']), 'pack': '*'})
        cases.append(c)
    ctx.stats['_rule'] = ('documents of words, groups, unknown macros, items, footnotes and inline formulas (bodies over letters, digits, operators, '
                          'sub/superscripts, fractions, unknown maths macros, maths spaces, closing punctuation), languages en/de/ru; expected rendering of '
                          'the k-th formula in expansion order = [blank] placeholder[(k) mod len] [punct] [blank]; non-trivial = at least 2 formulas')
    results = semrun.run_cases(ctx, cases)
    for c, r in zip(cases, results):
        exp = semrun.expected(c)
        if exp is None:
            ctx.count('unsupported'); continue
        ctx.case(c['src'], nontrivial=len(exp.formulas) >= 2)
        ctx.count('outcome_' + r['outcome']); ctx.count('formulas', len(exp.formulas))
        fails = judge(c, r, exp)
        if fails:
            ctx.violation(fails[0], src=c['src'], opts=c['opts'], case=semrun.pack(c))
        if len(ctx.samples) < 3 and len(exp.formulas) >= 2:
            ctx.sample({'src': c['src'][:300], 'out': (r.get('txt') or '')[:200]})
    corr.t2t(ctx, cases, results, proj=('outcome', 'toks', 'text', 'diags'), limit=ctx.scale(900, 20000))
    mf = macro_formula_cases(rng)
    mres = ctx.pmap(t2t.run_case, mf)
    for c, r in zip(mf, mres):
        ctx.case(c['src']); ctx.count('formulas_with_document_macros')
        f = judge_macro_formula(c, r)
        if f:
            ctx.violation(f[0], src=c['src'], opts=c['opts'], macro_formula={'span': list(c['span']), 'punct': c['punct']})
    corr.t2t(ctx, mf, mres, proj=('outcome', 'toks', 'text'), limit=len(mf))
    # several languages in one document: each language rotates its own collection
    docs = [mlmath.make(ctx.rng, display=False) for _ in range(ctx.scale(60, 1500))]
    flat, index = [], []
    for d in docs:
        full, per = mlmath.cases_of(d)
        index.append((len(flat), sorted(per)))
        flat += [full] + [per[l] for l in sorted(per)]
    res = ctx.pmap(t2t.run_case, flat)
    for d, (k, ls) in zip(docs, index):
        ctx.case(flat[k]['src'], nontrivial=True); ctx.count('multi_language_docs')
        fails = mlmath.judge(d, res[k], {l: res[k + 1 + j] for j, l in enumerate(ls)})
        if fails:
            ctx.violation(fails[0], src=flat[k]['src'], opts=flat[k]['opts'], multi=True, thresh=2, mlmath=d)
    corr.t2t(ctx, flat, res, proj=('outcome', 'toks', 'text'), limit=ctx.scale(300, 5000))

def macro_formula_cases(rng):
    """formulas that use macros of the document whose replacement is longer or shorter than the call, with and without
    closing punctuation, in the text and as the very last thing: every generated character maps inside the formula"""
    out = []
    defs = [('\\newcommand{\\eps}{\\varepsilon}', '\\eps'), ('\\newcommand{\\R}{\\mathbb{R}^{n \\times m}}', '\\R'),
            ('\\newcommand{\\norm}[1]{\\left\\lVert #1 \\right\\rVert}', '\\norm{x}'), ('\\def\\half{\\frac{1}{2}}', '\\half'),
            ('\\newcommand{\\set}[2]{\\{ #1 \\mid #2 \\}}', '\\set{x}{x > 0}'), ('\\newcommand{\\e}{e}', '\\e')]
    for d, use in defs:
        for punct in ['', '.', ',', ';', ':']:
            for op, cl in (('$', '$'), ('\\(', '\\)')):
                for body in (use, 'a + ' + use, use + ' = 0', use + '\\,'):
                    for tail in (' Qpost.', ''):
                        pre = d + '\nQpre '
                        f = op + body + punct + cl
                        out.append({'src': pre + f + tail, 'opts': {'pack': '*', 'lang': rng.choice(['en', 'de', 'ru'])}, 'multi': False,
                                    'kind': 'macro-formula', 'span': (len(pre), len(pre) + len(f)), 'punct': punct})
    return out

def judge_macro_formula(c, r):
    if r['outcome'] != 'ok' or r['stderr'].strip():
        return []
    a, b = c['span']
    txt, pos = r['txt'], r['pos']
    copied = set()
    for m in semrun.WORD.finditer(txt):
        copied.update(range(m.start(), m.end()))
    n = len(c['src'])
    gen = [(i, ch, p) for i, (ch, p) in enumerate(zip(txt, pos)) if i not in copied and not ch.isspace() and not (ch == '.' and p == n and b < n)]
    for i, ch, p in gen:
        if not (a < p <= b):
            return ['formula %r at %d..%d: the generated character %r maps to offset %d, outside the formula (text %r, positions %r)'
                    % (c['src'][a:b], a + 1, b, ch, p, txt, pos)]
    if c['punct'] and not any(ch == c['punct'] for i, ch, p in gen):
        return ['formula %r: its closing punctuation mark %r is not in the output %r' % (c['src'][a:b], c['punct'], txt)]
    return []

def judge_witness(w):
    if w.get('macro_formula'):
        c = {'src': w['src'], 'opts': w.get('opts') or {}, 'multi': False, 'span': tuple(w['macro_formula']['span']), 'punct': w['macro_formula']['punct']}
        return judge_macro_formula(c, t2t.run_case(c))
    return []

def rejudge(c):
    exp = semrun.expected(c)
    return [] if exp is None else judge(c, semrun.run_one(c), exp)

def replay(data):
    v = data['violation']
    f = None
    if v.get('macro_formula'):
        f = judge_witness(v)
    elif v.get('mlmath'):
        d = v['mlmath']; d['segs'] = [(l, how, [tuple(i) for i in items]) for (l, how, items) in d['segs']]
        full, per = mlmath.cases_of(d)
        f = mlmath.judge(d, t2t.run_case(full), {l: t2t.run_case(per[l]) for l in per})
    elif v.get('case'):
        f = rejudge(semrun.unpack(v['case']))
    if f is None:
        print('no stored case; violation was:', v.get('what')); return True
    print('\n'.join(f) if f else 'ok')
    return not f
