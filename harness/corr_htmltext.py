"""Correspondence of the STRING level of genhtml.py with the Lean model (Model/HtmlText.lean, driver operations
ESCAPES, BRMATCHES, BEGINMATCH, HIGHLIGHT, ADDLINES, HTMLTEXT).

The real functions are called in-process, unchanged, with stub `vars` (as in corr_html.py); the strings they return
are compared byte for byte with the rendered strings of the model:
  * `protect_title`, `html.escape`                                   (ESCAPES)
  * the regular expression of `generate_highlight`/`add_line_numbers` under `re.finditer`, on arbitrary strings
    (BRMATCHES; `re.sub` visits the same matches)
  * `begin_match(m, lin, unsure)` on random match records              (BEGINMATCH)
  * `generate_highlight(m, s, lin, unsure)`                           (HIGHLIGHT)
  * `add_line_numbers(s, line_numbers)` on arbitrary strings           (ADDLINES)
  * `generate_html(tex, charmap, matches, file)` — title, anchor, page text, count   (HTMLTEXT)
Outcomes `fatal` (a `json_get` that fails) and `crash` (IndexError in `add_line_numbers`, the position map pointing
behind the file, NameError for `highlight_style_unsure`) are outcomes of the model too.

`highlight_style_unsure`: `genhtml.init` does not set this global in /repo, `begin_match(…, unsure=True)` raises
NameError.  The model takes the style as an option; both variants are run: the module as it is (model: `none`), and
with the global set by the harness (model: `some`), so that the rest of the path of an unsure match is compared too.
"""
import re, html, importlib
import impl, proto, model
import corr_html
from corr import pmap_retry

HS = 'background: orange; border: solid thin black'
HSU = 'background: yellow; border: solid thin black'
NS = 'color: grey'

ATOMS = ['<', '>', '&', '"', "'", '<br>\n', '<br>\n', '\n', '\n', '\t', '>>>', '<<<', '\\', '\\n', '&amp;', '</span>', '-->', '<!--',
         'ä', '€', '\U0001f600', '&#10;', '<br>', '<br', 'br>\n', '<b', '<', 'r>\n', ' ', '  ', 'x', 'word', 'Wort', '\r', '\r\n', '\x0b',
         ' ', '\x85', 'x"><script>alert(1)</script>', "' onmouseover='x", '&ensp;', ';', '; ', '</td>', '</table>', '<tr>',
         '" title="', '">', 'a=b', '[', ']', '(', ')', ':', '+', '0', '12']

def hostile(rng, lo=0, hi=10):
    return ''.join(rng.choice(ATOMS) for _ in range(rng.randint(lo, hi)))

def enc_ints(l):
    return ' '.join(str(int(x)) for x in l) if l else '-'

def enc_json(v):
    if v is None:
        return ['z']
    if v is True:
        return ['t']
    if v is False:
        return ['f']
    if isinstance(v, int):
        return ['i', str(v)]
    if isinstance(v, float):
        return ['d']
    if isinstance(v, str):
        return ['s', proto.enc_str(v)]
    if isinstance(v, list):
        out = ['a', str(len(v))]
        for x in v:
            out += enc_json(x)
        return out
    if isinstance(v, dict):
        out = ['o', str(len(v))]
        for k, x in v.items():
            out += [proto.enc_str(k)] + enc_json(x)
        return out
    raise TypeError(v)

def enc_vars(V):
    hs, hsu, ns, link = V
    return [proto.enc_str(hs)] + (['0'] if hsu is None else ['1', proto.enc_str(hsu)]) + [proto.enc_str(ns), '1' if link else '0']

WRONG = [None, True, False, 3, -1, 2.5, 'str', '', [], {}, [1], ['u'], {'value': 5}, {'value': 'v<"'}, [{'value': 'w>'}]]
PATHS = [['context'], ['context', 'text'], ['context', 'offset'], ['context', 'length'], ['rule'], ['rule', 'id'], ['rule', 'subId'],
         ['rule', 'urls'], ['rule', 'urls', 0], ['rule', 'urls', 0, 'value'], ['message'], ['replacements'], ['replacements', 0],
         ['replacements', 0, 'value'], ['offset'], ['length']]

def gen_match(rng, offset=0, length=1):
    txt = hostile(rng, 0, 8)
    n = len(txt)
    r = rng.random()
    if r < 0.5:
        co = rng.randint(0, n); cl = rng.randint(0, max(0, n - co))
    elif r < 0.8:
        co = rng.randint(-n - 3, n + 3); cl = rng.randint(-3, n + 3)
    else:
        co = rng.choice([-1, 0, n, n + 1, -n, -n - 1, 10 ** 12, -10 ** 12]); cl = rng.choice([-1, 0, 1, n, 2 * n + 2, 10 ** 12, -10 ** 12])
    rule = {'id': rng.choice(['RULE_ID', 'MORFOLOGIK_RULE_EN_US', hostile(rng, 0, 3)])}
    if rng.random() < 0.4:
        rule['subId'] = rng.choice(['1', '12', hostile(rng, 0, 2)])
    if rng.random() < 0.6:
        rule['urls'] = [{'value': rng.choice(['https://languagetool.org/x?a=1&b=2', 'http://x/' + hostile(rng, 0, 4), hostile(rng, 0, 5)])}
                        for _ in range(rng.choice([0, 1, 1, 1, 2]))]
    m = {'offset': offset, 'length': length, 'message': hostile(rng, 0, 8),
         'context': {'text': txt, 'offset': co, 'length': cl},
         'rule': rule,
         'replacements': [{'value': hostile(rng, 0, 4)} for _ in range(rng.choice([0, 0, 1, 2, 3]))]}
    if rng.random() < 0.1:
        path = rng.choice(PATHS)
        obj = m
        try:
            for k in path[:-1]:
                obj = obj[k]
            if rng.random() < 0.4:
                del obj[path[-1]]
            else:
                obj[path[-1]] = rng.choice(WRONG)
        except (KeyError, IndexError, TypeError):
            pass
    return m

def gen_vars(rng):
    r = rng.random()
    if r < 0.7:
        hs, hsu, ns = HS, HSU, NS
    else:
        hs, hsu, ns = rng.choice(['hs', '', HS]), rng.choice(['hu', '', HSU]), rng.choice(['ns', '', NS])
    if rng.random() < 0.15:
        hsu = None          # the module as it is in /repo
    return (hs, hsu, ns, rng.random() < 0.5)

# ---- the real functions ----------------------------------------------------

class _C:
    pass

def _json_get(dic, item, typ):
    if not isinstance(dic, dict) or not isinstance(dic.get(item), typ):
        raise SystemExit(1)
    return dic.get(item)

SAVED = ('json_get', 'cmdline', 'highlight_style', 'number_style', 'msg_LT_server_html', 'highlight_style_unsure')

def with_genhtml(V, context, fn):
    """run fn(gh) with the module initialised from stub vars; restore the module afterwards"""
    impl.load()
    gh = importlib.import_module('yalafi.shell.genhtml')
    hs, hsu, ns, link = V
    cmd = _C(); cmd.context = context; cmd.link = link; cmd.file = ['d.tex']; cmd.server = ''
    v = _C(); v.cmdline = cmd; v.json_get = _json_get; v.highlight_style = hs; v.number_style = ns; v.msg_LT_server_html = ''
    saved = {k: gh.__dict__[k] for k in SAVED if k in gh.__dict__}
    def f():
        gh.init(v)
        # what `init` sets is what the module has; the unsure style only if the harness is asked to supply it
        if 'highlight_style_unsure' in gh.__dict__ and 'highlight_style_unsure' not in saved:
            pass            # a repaired `init` sets it itself
        if hsu is not None:
            gh.highlight_style_unsure = hsu
        return fn(gh)
    try:
        r = impl.guarded(f)
    finally:
        for k in SAVED:
            if k in saved:
                gh.__dict__[k] = saved[k]
            elif k in gh.__dict__:
                del gh.__dict__[k]
    return {'outcome': r['outcome'], 'exc': r.get('exc'), 'value': r.get('value')}

def init_sets_unsure():
    """does `genhtml.init` itself define `highlight_style_unsure` (a repaired tree)?"""
    impl.load()
    gh = importlib.import_module('yalafi.shell.genhtml')
    had = 'highlight_style_unsure' in gh.__dict__
    r = with_genhtml((HS, None, NS, False), 0, lambda g: 'highlight_style_unsure' in g.__dict__)
    return had or bool(r.get('value'))

RX = re.compile(r'((?:.|\n)*?(?!\Z)|(?:.|\n)+?)(<br>\n|\Z)')

def impl_case(case):
    kind = case[0]
    if kind == 'E':
        s = case[1]
        return with_genhtml((HS, HSU, NS, False), 0, lambda gh: [gh.protect_title(s), html.escape(s)])
    if kind == 'R':
        s = case[1]
        def f(gh):
            out = [(m.group(1), m.group(2) == '<br>\n') for m in RX.finditer(s)]
            # re.sub visits the same matches: rebuilding the string from them must give it back
            assert RX.sub(lambda m: '[' + m.group(1) + ']' + m.group(2), s) == ''.join('[' + a + ']' + ('<br>\n' if b else '') for a, b in out)
            return out
        return with_genhtml((HS, HSU, NS, False), 0, f)
    if kind == 'B':
        _, V, m, lin, unsure = case
        return with_genhtml(V, 0, lambda gh: list(gh.begin_match(m, lin, unsure)))
    if kind == 'H':
        _, V, m, s, lin, unsure = case
        return with_genhtml(V, 0, lambda gh: [gh.generate_highlight(m, s, lin, unsure)])
    if kind == 'A':
        _, ns, s, nums = case
        return with_genhtml((HS, HSU, ns, False), 0, lambda gh: [gh.add_line_numbers(s, list(nums))])
    if kind == 'G':
        _, V, tex, cm, ms, file, context = case
        def f(gh):
            (title, anchor, page, n) = gh.generate_html(tex, list(cm), ms, file)
            return [title, anchor, page, n]
        return with_genhtml(V, corr_html.norm_context(context), f)
    raise ValueError(kind)

def request(i, case):
    kind = case[0]
    if kind == 'E':
        return ('ESCAPES', 't%d' % i, [proto.enc_str(case[1])])
    if kind == 'R':
        return ('BRMATCHES', 't%d' % i, [proto.enc_str(case[1])])
    if kind == 'B':
        _, V, m, lin, unsure = case
        return ('BEGINMATCH', 't%d' % i, enc_vars(V) + enc_json(m) + [str(lin), '1' if unsure else '0'])
    if kind == 'H':
        _, V, m, s, lin, unsure = case
        return ('HIGHLIGHT', 't%d' % i, enc_vars(V) + enc_json(m) + [proto.enc_str(s), str(lin), '1' if unsure else '0'])
    if kind == 'A':
        _, ns, s, nums = case
        return ('ADDLINES', 't%d' % i, [proto.enc_str(ns), proto.enc_str(s), enc_ints(nums)])
    if kind == 'G':
        _, V, tex, cm, ms, file, context = case
        f = enc_vars(V) + [proto.enc_str(tex), enc_ints(cm), str(len(ms))]
        for m in ms:
            f += enc_json(m)
        return ('HTMLTEXT', 't%d' % i, f + [proto.enc_str(file), str(context)])
    raise ValueError(kind)

def decode(kind, a):
    """the model's answer in the shape of the impl value"""
    rd = proto.Reader(a)
    st = rd.next()
    if st != 'ok':
        return st, None
    if kind == 'E':
        return st, [rd.str(), rd.str()]
    if kind == 'R':
        return st, [(rd.str(), rd.bool()) for _ in range(rd.nat())]
    if kind == 'B':
        return st, [rd.str(), rd.str()]
    if kind in 'HA':
        return st, [rd.str()]
    if kind == 'G':
        return st, [rd.str(), rd.str(), rd.str(), rd.nat()]
    raise ValueError(kind)

# ---- generators ------------------------------------------------------------

def gen_highlight_text(rng):
    r = rng.random()
    if r < 0.08:
        return ''
    if r < 0.2:
        return rng.choice(['\n', '\n\n', 'a\n', 'a', '<br>\n', 'a\n\nb', '\na', 'a<br>\nb\n'])
    return hostile(rng, 1, 8)

def gen_table_text(rng):
    r = rng.random()
    if r < 0.05:
        return ''
    if r < 0.15:
        return rng.choice(['<br>\n', '<br>\n<br>\n', 'a<br>\n', 'a', 'a<br>\nb', '<br', '<br>', '<<br>\n', '<br><br>\n', '<b<br>\n', '<br>\n\n'])
    return ''.join(rng.choice(ATOMS + ['<br>\n'] * 12) for _ in range(rng.randint(1, 12)))

def gen_nums(rng, s):
    k = s.count('<br>\n') + (0 if s.endswith('<br>\n') or not s else 1)
    r = rng.random()
    n = k if r < 0.7 else (rng.randint(0, k + 2))
    return [rng.choice([-1, -1, 0, 1, 5, 99, 12345, -2]) if rng.random() < 0.4 else j for j in range(n)]

def gen_report(rng):
    tex, cm, ms, context = corr_html.gen_case(rng)
    recs = []
    for (o, l) in ms:
        recs.append(gen_match(rng, o, l))
    r = rng.random()
    file = 'd.tex' if r < 0.7 else rng.choice(['dir/a b.tex', 'ä.tex', hostile(rng, 0, 3)])
    V = gen_vars(rng)
    if V[1] is None and rng.random() < 0.5:
        cm = [abs(x) for x in cm]       # the module as it is: keep some cases free of unsure matches
    return ('G', V, tex, cm, recs, file, context)

def gen_cases(rng, n):
    cases = []
    for _ in range(n):
        r = rng.random()
        if r < 0.06:
            cases.append(('E', hostile(rng, 0, 12)))
        elif r < 0.16:
            cases.append(('R', gen_table_text(rng)))
        elif r < 0.40:
            cases.append(('B', gen_vars(rng), gen_match(rng), rng.choice([1, 2, 17, 12345, 0, -3]), rng.random() < 0.4))
        elif r < 0.58:
            cases.append(('H', gen_vars(rng), gen_match(rng), gen_highlight_text(rng), rng.choice([1, 2, 17, 12345]), rng.random() < 0.3))
        elif r < 0.70:
            s = gen_table_text(rng)
            cases.append(('A', rng.choice([NS, 'ns', '']), s, gen_nums(rng, s)))
        else:
            cases.append(gen_report(rng))
    return cases

NAMES = {'E': 'protect_title/html.escape', 'R': 'regular expression over <br>', 'B': 'begin_match', 'H': 'generate_highlight',
         'A': 'add_line_numbers', 'G': 'generate_html (text)'}

def htmltext_corr(ctx, n):
    rng = ctx.rng
    cases = gen_cases(rng, n)
    if not ctx.model_ok:
        return
    if init_sets_unsure():
        # a tree whose `init` defines the style of unsure matches: the variant "name not defined" does not exist
        ctx.count('htmltext_init_sets_unsure_style')
        def fix(c):
            if c[0] in 'BHG' and c[1][1] is None:
                V = (c[1][0], HSU, c[1][2], c[1][3])
                return (c[0], V) + tuple(c[2:])
            return c
        cases = [fix(c) for c in cases]
    res = pmap_retry(ctx, impl_case, cases)
    ans = model.run_batch([request(i, c) for i, c in enumerate(cases)])
    for i, (c, r) in enumerate(zip(cases, res)):
        kind = c[0]
        ctx.corr['cases'] += 1
        ctx.count('htmltext_%s_%s' % (kind, r['outcome']))
        try:
            st, mv = decode(kind, ans['t%d' % i])
        except Exception as e:
            ctx.disagree('%s: model answer not understood: %r %s' % (NAMES[kind], ans['t%d' % i][:3], e), case=c); continue
        if st != r['outcome']:
            ctx.disagree('%s: model %s / impl %s %s' % (NAMES[kind], st, r['outcome'], r.get('exc')), case=c); continue
        if st != 'ok':
            continue
        iv = r['value']
        if kind == 'R':
            iv = [tuple(x) for x in iv]
        if mv != iv:
            k = next((j for j in range(min(len(mv), len(iv))) if mv[j] != iv[j]), min(len(mv), len(iv)))
            ctx.disagree('%s: result %d differs' % (NAMES[kind], k), case=c, model=mv[k] if k < len(mv) else None, impl=iv[k] if k < len(iv) else None)
        elif kind == 'G':
            ctx.count('htmltext_G_overlap_tables', int('overlapping message(s)</H3>' in iv[2]))
            ctx.count('htmltext_G_spans', iv[2].count('<span '))
            ctx.count('htmltext_G_links', iv[2].count('<a href="') - iv[2].count('<a href="#'))
