"""Shared end-to-end runner: one tex2txt call on the implementation, summarised."""
import impl, proto, gen, random

def run_case(case):
    """case: dict(src, opts, multi, files, thresh). Returns picklable summary."""
    r = impl.run_tex2txt(case['src'], case.get('opts') or {}, multi=case.get('multi', False),
                         files=case.get('files'), thresh=case.get('thresh'), timeout=case.get('timeout', 10),
                         cap_lines=case.get('cap_lines', 0))
    out = {'outcome': r['outcome'], 'exc': r.get('exc'), 'site': r.get('site'), 'stderr': r['stderr'],
           'unknowns': r.get('unknowns'), 'trace': r.get('trace'), 'hot': r.get('hot')}
    if r['outcome'] == 'ok':
        v = r['value']
        if case.get('multi'):
            out['parts'] = [(lang, [(p[0], list(p[1])) for p in ps]) for lang, ps in v.items()]
        else:
            out['txt'], out['pos'] = v[0], list(v[1])
    if r.get('toks') is not None and case.get('want_toks', True):
        try:
            out['toks'] = [proto.tok_of_obj(t) for t in r['toks']]
        except Exception as e:
            out['toks'] = None
    out['lang_change'] = r.get('lang_change')
    out['lines_inputs'] = r.get('lines_inputs')
    return out

def all_parts(res, case):
    if res['outcome'] != 'ok':
        return []
    if case.get('multi'):
        return [(lang, t, p) for lang, ps in res['parts'] for (t, p) in ps]
    return [(case.get('opts', {}).get('lang') or '', res['txt'], res['pos'])]

def doc_cases(ctx, n, profile=None, with_mut=True, with_soup=True, opts_fn=None):
    """the standard case mix: G-doc documents + G-edge + G-mut + G-soup, random options"""
    rng = ctx.rng
    cases = []
    for i in range(n):
        ast, r = gen.make_doc(rng, profile)
        src = r.src()
        opts = (opts_fn or gen.gen_options)(rng)
        base = {'src': src, 'opts': opts, 'multi': rng.random() < 0.25, 'kind': 'doc', 'words': r.words}
        if base['multi']:
            base['thresh'] = rng.randint(0, 5)
        if rng.random() < 0.12 and r.words:
            # a replacement file whose phrases are words of the document (longer and shorter replacements)
            ws = [w['w'] for w in r.words if w['role'] == 'copy']
            if ws:
                rules = []
                for w in rng.sample(ws, min(2, len(ws))):
                    rules.append(w + ' & ' + rng.choice([w + ' zum Beispiel', w + ' x', w[:2], '', w + ' ' + 'y' * 12]))
                base['opts'] = dict(base['opts'], repl=rules)
                base['words'] = None
        q = rng.random()
        if q < 0.08:
            # definitions supplied separately
            ast2, r2 = gen.make_doc(rng, profile, n=3)
            base['opts'] = dict(opts, defs=r2.src())
            base['kind'] = 'doc+defs'
        elif q < 0.16:
            ast2, r2 = gen.make_doc(rng, profile, n=3)
            base['files'] = {'f1.tex': r2.src()}
            base['src'] = '\\LTinput{f1.tex}\n' + src
            base['words'] = None
            base['kind'] = 'doc+input'
        elif q < 0.19:
            base['src'] = '\\LTinput{missing.tex} ' + src
            base['words'] = None
        cases.append(base)
        if with_mut and i % 2 == 0:
            for m in gen.mutations(rng, base['src'], k=4):
                cases.append({'src': m, 'opts': base['opts'], 'multi': base['multi'], 'thresh': base.get('thresh'),
                              'files': base.get('files'), 'kind': 'mut', 'words': None})
        if i % 4 == 1:
            # other line conventions (CR LF, form feed, Unicode line separators, ...)
            cases.append({'src': gen.exotic_breaks(rng, base['src']), 'opts': base['opts'], 'multi': base['multi'],
                          'thresh': base.get('thresh'), 'files': base.get('files'), 'kind': 'breaks', 'words': None})
        if i % 3 == 0:
            # G-edge: every prefix ending right after a construct = construct at the very end of the text
            ends = sorted({e for (_, s, e) in r.spans if 0 < e <= len(src)})
            for e in rng.sample(ends, min(3, len(ends))):
                cases.append({'src': src[:e], 'opts': opts, 'multi': base['multi'], 'thresh': base.get('thresh'),
                              'kind': 'edge', 'words': None})
    for r in gen.edge_docs(rng, k=max(2, n // 120)):
        cases.append({'src': r.src(), 'opts': dict(gen.gen_options(rng), pack=rng.choice(['*', '*', 'glossaries'])),
                      'multi': rng.random() < 0.2, 'kind': 'edge2', 'words': r.words})
    cases += sig_cases(rng, max(1, n // 400))
    for _ in range(max(20, n // 20)):
        src, files = gen.gls_doc(rng)
        cases.append({'src': src, 'files': files, 'opts': {'pack': rng.choice(['*', 'glossaries']), 'lang': rng.choice(['en', 'de'])},
                      'multi': rng.random() < 0.2, 'kind': 'gls', 'words': None})
    import cref
    for _ in range(max(10, n // 40)):
        c = cref.make(rng, stale=rng.random() < 0.3)
        c.pop('uses', None)
        cases.append(c)
    if with_soup:
        for _ in range(n // 2):
            cases.append({'src': gen.soup(rng), 'opts': (opts_fn or gen.gen_options)(rng), 'multi': rng.random() < 0.2,
                          'kind': 'soup', 'words': None})
    return cases


_sig = {}
def signatures():
    """(name, args) of every macro and of every environment the implementation knows with all bundled
    packages loaded: read from the parser object of /repo (argument string: A mandatory, O optional,
    * star)"""
    if 'v' in _sig:
        return _sig['v']
    m = impl.load()
    parms = m.parameters.Parameters('en')
    packages = m.tex2txt.get_packages('*', parms.package_modules)
    pr = m.parser.Parser(parms, packages, read_macros=None)
    macs = sorted((k, v.args) for k, v in pr.the_macros.items())
    envs = sorted((k, v.args) for k, v in pr.the_environments.items())
    _sig['v'] = (macs, envs)
    return _sig['v']

def sig_cases(rng, k=1):
    """G-sig: every known macro / environment called according to its signature, with each argument
    braced, or given as one unbraced token, optional arguments present or absent, as the very last
    thing of the text with and without a final line break"""
    macs, envs = signatures()
    out = []
    def arg(kind, style):
        w = 'Q' + ''.join(rng.choice('abcdefghijklmnopqrstuvwxyz') for _ in range(rng.randint(2, 4)))
        if kind == 'A':
            return {'brace': '{%s}' % w, 'bare': ' ' + w[0], 'tok': w[0], 'braceT': '{%s teh.}' % w,
                    'lang': '{\\foreignlanguage{german}{%s}}' % w}[style]
        if kind == 'O':
            return rng.choice(['', '[%s]' % w, ''])
        if kind == '*':
            return rng.choice(['', '*'])
        return ''
    acc = [("\\'", 'A'), ('\\"', 'A'), ('\\^', 'A'), ('\\~', 'A'), ('\\c', 'A'), ('\\v', 'A'), ('\\H', 'A')]
    for _ in range(k):
        for nm, args in macs + acc:
            if not nm.startswith('\\'):
                continue
            for style in ('brace', 'bare', 'tok', 'braceT', 'lang'):
                for tail in ('', rng.choice(['\n', ' Qpost.', '\n\nQpost'])):
                    body = nm + ''.join(arg(a, style) for a in args)
                    src = rng.choice(['', 'Qpre ', 'Qpre\n\n', '\\begin{itemize}\\item ']) + body + tail
                    out.append({'src': src, 'opts': {'pack': '*', 'lang': rng.choice(['en', 'de', 'ru'])}, 'multi': style == 'lang' or rng.random() < 0.15,
                                'kind': 'sig', 'words': None})
        for nm, args in envs:
            for style in ('brace', 'tok'):
                body = '\\begin{%s}' % nm + ''.join(arg(a, style) for a in args)
                for tail in ('', rng.choice([' Qin', ' Qin\\end{%s}' % nm, '\\end{%s}' % nm, '\n'])):
                    out.append({'src': rng.choice(['', 'Qpre ']) + body + tail, 'opts': {'pack': '*', 'lang': rng.choice(['en', 'de'])},
                                'multi': rng.random() < 0.15, 'kind': 'sig', 'words': None})
    return out
