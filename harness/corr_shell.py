"""Correspondence of the pure shell functions (yalafi/shell/*) with the Lean model."""
from corr import pmap_retry
import sys, io, re, types
import impl, proto, model

def enc_ints(l):
    return ' '.join(str(int(x)) for x in l) if l else '-'

JTAG = {'missing': ['n'], 'true': ['t'], 'false': ['f'], 'str': ['s'], 'float': ['d'], 'null': ['z'], 'list': ['a'], 'dict': ['o']}
def enc_j(v):
    if isinstance(v, tuple):        # ('int', k)
        return ['i', str(v[1])]
    return JTAG[v]

def py_j(v):
    if isinstance(v, tuple):
        return v[1]
    return {'true': True, 'false': False, 'str': 'x', 'float': 1.5, 'null': None, 'list': [], 'dict': {}}[v]

def shell_mods():
    m = impl.load()
    import importlib
    su = importlib.import_module('yalafi.shell.utils')
    ch = importlib.import_module('yalafi.shell.checks')
    gh = importlib.import_module('yalafi.shell.genhtml')
    return su, ch, gh

def impl_map(args):
    cm, latex, off, ln = args
    su, ch, gh = shell_mods()
    def f():
        m = {'offset': off}
        if ln != 'missing':
            m['length'] = py_j(ln)
        r = su.map_match_position(m, latex, list(cm))
        return (r['offset'], r['length'])
    return impl.guarded(f)

def map_match(ctx, n):
    rng = ctx.rng
    cases = []
    for _ in range(n):
        L = rng.randint(1, 30)
        latex = ''.join(rng.choice('ab \\n\\cd{}$') if False else rng.choice(['a', 'b', ' ', '\n', '\\', 'c', '{', '}', 'ä']) for _ in range(L))
        k = rng.randint(1, 25)
        mode = rng.random()
        if mode < 0.6:
            st = rng.randint(1, max(1, L - 1))
            cm = [min(L, st + i) for i in range(k)]
        elif mode < 0.85:
            cm = [rng.randint(1, L) for _ in range(k)]
        else:
            cm = [rng.choice([1, -1]) * rng.randint(1, L) for _ in range(k)]
        off = rng.randint(-3, k + 3)
        r = rng.random()
        if r < 0.8:
            ln = ('int', rng.randint(-3, k + 4))
        else:
            ln = rng.choice(['missing', 'true', 'false'])      # other types are rejected by json_get before the call
        cases.append((cm, latex, off, ln))
    if not ctx.model_ok:
        return
    res = pmap_retry(ctx, impl_map, cases)
    ans = model.run_batch([('MAP', 'm%d' % i, [enc_ints(c[0]), proto.enc_str(c[1]), str(c[2])] + enc_j(c[3])) for i, c in enumerate(cases)])
    for i, (c, r) in enumerate(zip(cases, res)):
        a = ans['m%d' % i]
        ctx.corr['cases'] += 1
        ctx.count('map_' + r['outcome'])
        if a[0] == 'ok':
            if r['outcome'] != 'ok' or (int(a[1]), int(a[2])) != tuple(r['value']):
                ctx.disagree('map_match_position: model %r / impl %s %r' % (a, r['outcome'], r.get('value')), case=c)
        elif a[0] == 'crash':
            if r['outcome'] != 'crash':
                ctx.disagree('map_match_position: model crash / impl %s %r' % (r['outcome'], r.get('value')), case=c)
        else:
            ctx.disagree('map_match_position: model %r' % a, case=c)

def impl_asm(parts):
    """the assembly and sorting part of run_proofreader_options, re-enacted with the module's own code:
    we call the real function with stubbed tex2txt / run_languagetool"""
    import importlib
    impl.load()
    pr = importlib.import_module('yalafi.shell.proofreader')
    t2 = importlib.import_module('yalafi.tex2txt')
    class C: pass
    cmd = C()
    cmd.replace = None; cmd.define = None; cmd.extract = None; cmd.list_unknown = False; cmd.simple_equations = False
    cmd.documentclass = ''; cmd.packages = '*'; cmd.no_specials = False; cmd.plain_input = False; cmd.multi_language = True
    cmd.ml_continue_threshold = 2; cmd.ml_disable = ''; cmd.ml_disablecategories = ''; cmd.textgears = None; cmd.ml_rule_threshold = 2
    cmd.single_letters = None; cmd.equation_punctuation = None; cmd.server = ''
    def json_get(dic, item, typ):
        if not isinstance(dic, dict) or not isinstance(dic.get(item), typ):
            raise SystemExit(1)
        return dic.get(item)
    v = C()
    v.cmdline = cmd; v.ltcommand = ''; v.ltserver = ''; v.ltserver_local = ''; v.ltserver_local_cmd = ''; v.textgears_server = ''
    v.json_decoder = None; v.json_get = json_get; v.json_fatal = None
    v.equation_replacements_display = ''; v.equation_replacements_inline = ''; v.equation_replacements = ''; v.lt_option_map = {}
    pr.init(v)
    it = iter(parts)
    plain_map = {}
    for i, (plain, cm, offs) in enumerate(parts):
        plain_map.setdefault('l%d' % i, []).append((plain, list(cm)))
    answers = {plain: [{'offset': o, 'length': 1} for o in offs] for (plain, cm, offs) in parts}
    old_t2t, old_lt = t2.tex2txt, pr.run_languagetool
    t2.tex2txt = lambda tex, opts, multi_language=False, modify_parms=None: plain_map
    pr.run_languagetool = lambda plain, *a: [dict(m) for m in answers[plain]]
    def f():
        tex, ptot, cmtot, ms = pr.run_proofreader_options('x', 'en', '', '', '', '', [])
        return (ptot, list(cmtot), [m['offset'] for m in ms])
    try:
        return impl.guarded(f)
    finally:
        t2.tex2txt, pr.run_languagetool = old_t2t, old_lt

def assemble_sort(ctx, n):
    rng = ctx.rng
    cases = []
    for _ in range(n):
        parts = []
        used = set()
        for _ in range(rng.randint(1, 4)):
            L = rng.randint(1, 12)
            plain = ''.join(rng.choice('abc d\n') for _ in range(L))
            if rng.random() < 0.2:
                # a blank part (str.strip() knows 29 white-space characters): the loop skips it
                plain = ''.join(rng.choice([' ', '\n', '\t', '\x0c', '\xa0', '\u2003', '\u2028', '\x1f', '\x85', '\u3000']) for _ in range(rng.randint(0, 4)))
                if rng.random() < 0.3:
                    plain += rng.choice(['\u200b', '\ufeff', 'x', '\u180e'])      # looks blank, is not
            if plain in used or (not plain.strip() and rng.random() < 0.25):
                plain = 'w%d' % len(used) + plain
            used.add(plain)
            base = rng.randint(1, 60)
            cm = [base + i for i in range(len(plain))]
            offs = [rng.randint(0, max(0, len(plain) - 1)) for _ in range(rng.randint(0, 3))]
            if rng.random() < 0.05:
                offs.append(rng.choice([-1, len(plain) + 5]))
            parts.append((plain, cm, offs))
        cases.append(parts)
    if not ctx.model_ok:
        return
    res = pmap_retry(ctx, impl_asm, cases)
    reqs = []
    for i, parts in enumerate(cases):
        f = [str(len(parts))]
        for (plain, cm, offs) in parts:
            f += [proto.enc_str(plain), enc_ints(cm), enc_ints(offs)]
        reqs.append(('ASMSORT', 'a%d' % i, f))
    ans = model.run_batch(reqs)
    for i, (c, r) in enumerate(zip(cases, res)):
        a = ans['a%d' % i]
        ctx.corr['cases'] += 1
        ctx.count('asm_' + r['outcome'])
        if a[0] == 'ok':
            mv = (proto.dec_str(a[1]), [int(x) for x in a[2].split()] if a[2] != '-' else [], [int(x) for x in a[3].split()] if a[3] != '-' else [])
            if r['outcome'] != 'ok' or mv != tuple(r['value']):
                ctx.disagree('assembly/sort: model %r / impl %s %r' % (mv, r['outcome'], r.get('value')), case=c)
        elif a[0] == 'fatal':
            if r['outcome'] != 'fatal':
                ctx.disagree('assembly/sort: model fatal / impl %s' % r['outcome'], case=c)
        else:
            ctx.disagree('assembly/sort: model %r' % a[:2], case=c)
