#!/venv/bin/python
"""Fake proofreader for the shell tests: `fake_lt.py SPEC.json <LT options…> -`.
Reads the plain text from stdin, answers as told by SPEC and logs how it was called."""
import sys, json, re
spec_path = sys.argv[1]
spec = json.load(open(spec_path, encoding='utf-8'))
plain = sys.stdin.buffer.read().decode('utf-8')
log = {'argv': sys.argv[2:], 'plain': plain}
with open(spec_path + '.log', 'a', encoding='utf-8') as f:
    f.write(json.dumps(log, ensure_ascii=False) + '\n')
def ctx(off, ln):
    beg = max(off - 20, 0)
    return {'text': plain[beg:off + ln + 20].replace('\n', ' '), 'offset': off - beg, 'length': ln}
def match(off, ln, msg='msg'):
    return {'message': msg if msg.startswith('M') or 'message' not in spec else spec['message'], 'offset': off, 'length': ln, 'context': ctx(off, ln),
            'replacements': [{'value': v} for v in spec.get('suggestions', ['x'])],
            'rule': {'id': spec.get('rule', 'RULE'), 'subId': '1', 'category': {'name': 'Cat'}, 'urls': [{'value': 'http://example.invalid/r'}]}}
if 'raw' in spec:
    sys.stdout.buffer.write(spec['raw'].encode('utf-8', 'surrogatepass'))
    sys.exit(0)
ms = []
for w in spec.get('flag_words', []):
    for m in re.finditer(re.escape(w) + r'(?![a-zäöüß])', plain):
        ms.append(match(m.start(), len(w), 'flag ' + w))
for i, (o, l) in enumerate(spec.get('spans', [])):
    ms.append(match(o, l, (spec.get('span_msgs') or {}).get(str(i), 'M%d' % i)))
for (f1, ln) in spec.get('frac_spans', []):
    o = min(len(plain), max(0, int(f1 * len(plain))))
    if ln == 'toend':
        ln = len(plain) - o
    ms.append(match(o, ln))
for (o, l) in spec.get('abs_spans', []):      # offsets relative to the end if negative
    ms.append(match(o if o >= 0 else len(plain) + o, l))
if spec.get('shuffle'):
    ms.reverse()
ans = {'matches': ms, 'software': {'name': 'fake'}}
def mutate(root, mu):
    op, path = mu['op'], mu['path']
    cur = root
    for k in path[:-1]:
        try:
            cur = cur[k]
        except Exception:
            return root
    k = path[-1] if path else None
    try:
        if op == 'del':
            del cur[k]
        elif op == 'set':
            if path:
                cur[k] = mu['value']
            else:
                return mu['value']
        elif op == 'add':
            cur[k] = cur[k] + mu['value']
    except Exception:
        pass
    return root
for mu in spec.get('mutations', []):
    ans = mutate(ans, mu)
out = json.dumps(ans, ensure_ascii=spec.get('ascii', True)).encode('utf-8', 'surrogatepass')
if 'truncate' in spec:
    out = out[:int(len(out) * spec['truncate'])]        # byte truncation: may cut a multi-byte character
if 'truncate_bytes' in spec:
    out = out[:spec['truncate_bytes']]
sys.stdout.buffer.write(out)
