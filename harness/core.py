"""Check orchestration: tables -> lake build -> axiom audit -> property module
(correspondence + oracle + search) -> verdict, evidence, replay."""
import os, sys, json, time, fcntl, subprocess, hashlib, random, re, importlib, traceback
from concurrent.futures import ProcessPoolExecutor

VERIF = os.path.dirname(os.path.dirname(os.path.abspath(__file__)))
REPO = os.environ.get('YALAFI_REPO', '/repo')
LEAN = os.path.join(VERIF, 'lean')
PY = '/venv/bin/python'
ALLOWED_AXIOMS = {'propext', 'Classical.choice', 'Quot.sound'}
FORBIDDEN = re.compile(r'\b(sorry|admit|native_decide|bv_decide|implemented_by|unsafe)\b|^\s*axiom\s|maxHeartbeats\s+0', re.M)

TRUSTED_BASE = [
    'Lean 4.33.0 kernel; axioms limited to propext, Classical.choice, Quot.sound (audited per theorem on every run)',
    'translator/gen_tables.py: tables obtained by executing the repository constructors',
    'hand-written Lean model validated by the correspondence check (differential testing, seeded)',
    'harness (impl adapters, comparison, oracles); Python re/json/str/unicodedata as in /venv',
]

def log(*a):
    print(*a, file=sys.stderr, flush=True)

class Lock:
    def __enter__(self):
        self.f = open(os.path.join(VERIF, '.lock'), 'w')
        fcntl.flock(self.f, fcntl.LOCK_EX)
        return self
    def __exit__(self, *a):
        fcntl.flock(self.f, fcntl.LOCK_UN)
        self.f.close()

def strip_comments(src):
    src = re.sub(r'/-.*?-/', '', src, flags=re.S)
    return re.sub(r'--.*', '', src)

def lean_sources():
    out = []
    for d, _, fs in os.walk(LEAN):
        if '.lake' in d:
            continue
        for f in fs:
            if f.endswith('.lean'):
                out.append(os.path.join(d, f))
    return sorted(out)

def import_closure(mod):
    """files of this project that `mod` imports, transitively"""
    seen, todo = set(), [mod]
    while todo:
        m = todo.pop()
        if m in seen:
            continue
        p = os.path.join(LEAN, *m.split('.')) + '.lean'
        if not os.path.exists(p):
            continue
        seen.add(m)
        for mm in re.finditer(r'^import\s+(YalafiVerif[\w.]*)', open(p).read(), re.M):
            todo.append(mm.group(1))
    return sorted(os.path.join(LEAN, *m.split('.')) + '.lean' for m in seen)

def forbidden_hits(mod):
    hits = []
    for p in import_closure(mod):
        s = strip_comments(open(p).read())
        for m in FORBIDDEN.finditer(s):
            hits.append('%s: %s' % (os.path.relpath(p, LEAN), m.group(0).strip()))
    return hits

def run(cmd, cwd=None, timeout=3600, env=None):
    p = subprocess.run(cmd, cwd=cwd, stdout=subprocess.PIPE, stderr=subprocess.STDOUT, timeout=timeout, env=env)
    return p.returncode, p.stdout.decode('utf-8', 'replace')

def prepare(prop, obligations, tier='quick'):
    """Regenerate tables, build the property's Lean module and the driver, audit axioms.
    Returns dict(build_ok, audit: {name: axioms|None}, problems: [str])."""
    res = {'build_ok': True, 'audit': {}, 'problems': [], 'log': ''}
    with Lock():
        rc, out = run([PY, os.path.join(VERIF, 'translator', 'gen_tables.py'), REPO,
                       os.path.join(LEAN, 'YalafiVerif', 'Generated', 'Tables.lean')])
        res['log'] += out
        if rc != 0:
            res['build_ok'] = False
            res['problems'].append('translator failed: ' + out[-2000:])
            return res
        rc, out = run(['lake', 'build', 'driver'], cwd=LEAN)
        res['log'] += out
        if rc != 0:
            res['build_ok'] = False
            res['driver_ok'] = False
            res['problems'].append('lake build driver failed:\n' + out[-3000:])
        else:
            res['driver_ok'] = True
        mod = 'YalafiVerif.Properties.' + prop
        rc, out = run(['lake', 'build', mod], cwd=LEAN)
        res['log'] += out
        if rc != 0:
            res['build_ok'] = False
            res['problems'].append('lake build %s failed:\n%s' % (mod, out[-3000:]))
            for n in obligations:
                res['audit'][n] = None
            return res
        hits = forbidden_hits(mod)
        if hits:
            res['build_ok'] = False
            res['problems'].append('forbidden constructs in Lean sources: ' + '; '.join(hits[:10]))
        audit = os.path.join(LEAN, 'Audit_%s.lean' % prop)
        with open(audit, 'w') as f:
            f.write('import %s\n' % mod)
            for n in obligations:
                f.write('#print axioms %s\n' % n)
        rc, out = run(['lake', 'env', 'lean', audit], cwd=LEAN)
        os.remove(audit)
        res['log'] += out
        found = {}
        for m in re.finditer(r"'([^']+)' depends on axioms: \[([^\]]*)\]", out):
            found[m.group(1)] = [a.strip() for a in m.group(2).replace('\n', ' ').split(',') if a.strip()]
        for m in re.finditer(r"'([^']+)' does not depend on any axioms", out):
            found[m.group(1)] = []
        if tier == 'thorough' and res['build_ok']:
            # second opinion: Lean's independent re-checker replays every declaration of the property module and of all
            # project modules it imports in a fresh kernel (a time-out is recorded, not counted as a failure)
            mods = [os.path.relpath(q, LEAN)[:-5].replace('/', '.') for q in import_closure(mod)]
            t0 = time.time()
            try:
                rc, out = run(['lake', 'env', 'leanchecker'] + mods, cwd=LEAN, timeout=1800)
                res['leanchecker'] = {'modules': len(mods), 'seconds': round(time.time() - t0, 1), 'exit': rc}
                if rc != 0:
                    res['build_ok'] = False
                    res['problems'].append('leanchecker rejects the compiled modules:\n' + out[-2000:])
            except subprocess.TimeoutExpired:
                res['leanchecker'] = {'modules': len(mods), 'seconds': round(time.time() - t0, 1), 'exit': 'time-out'}
        for n in obligations:
            ax = found.get(n)
            res['audit'][n] = ax
            if ax is None:
                res['problems'].append('theorem %s not found / not checked' % n)
            elif not set(ax) <= ALLOWED_AXIOMS:
                res['problems'].append('theorem %s uses axioms %s' % (n, ax))
                res['audit'][n] = None
    return res

# ---------------------------------------------------------------------------

class Ctx:
    def __init__(self, prop, tier, seed):
        self.prop, self.tier, self.seed = prop, tier, seed
        self.rng = random.Random((seed << 8) ^ int(hashlib.sha1(prop.encode()).hexdigest()[:6], 16))
        self.violations = []      # dicts: {what, input..., kind}
        self.known_hits = {}      # finding id -> count
        self.corr = {'cases': 0, 'disagreements': 0, 'first': None}
        self.stats = {}
        self.samples = []
        self.distinct = set()
        self.evals = 0
        self.notes = []
        self.workers = int(os.environ.get('VERIF_JOBS', '16'))
    def scale(self, quick, thorough):
        if self.tier == 'thorough':
            return thorough
        # the source differs from the fingerprint the model was written against (tools/fingerprint.py): the quick tier
        # spends three times its budget (never more than the thorough tier); this alone is never an alarm
        if getattr(self, 'changed_units', None) and thorough > quick:
            return min(thorough, quick * 3)
        return quick
    def count(self, key, n=1):
        self.stats[key] = self.stats.get(key, 0) + n
    def case(self, key, nontrivial=True):
        self.evals += 1
        if nontrivial:
            self.distinct.add(hashlib.sha1(repr(key).encode('utf-8', 'surrogatepass')).digest()[:8])
    def sample(self, s):
        if len(self.samples) < 6:
            self.samples.append(s)
    def violation(self, what, **replay):
        self.violations.append(dict(what=what, **replay))
    def disagree(self, what, **info):
        self.corr['disagreements'] += 1
        if self.corr['first'] is None:
            self.corr['first'] = dict(what=what, **info)
    def pmap(self, fn, items, chunksize=None):
        items = list(items)
        if not items:
            return []
        if self.workers <= 1 or len(items) < 8:
            return [fn(x) for x in items]
        cs = chunksize or max(1, len(items) // (self.workers * 4))
        with ProcessPoolExecutor(max_workers=self.workers) as ex:
            return list(ex.map(fn, items, chunksize=cs))

def load_known(prop):
    p = os.path.join(VERIF, 'known_findings.json')
    if not os.path.exists(p):
        return [], []
    d = json.load(open(p))
    return ([e for e in d.get('known', []) if e['property'] == prop],
            [e for e in d.get('fixed', []) if e['property'] == prop])

def write_evidence(prop, tier, seed, ctx, prep, obligations, wall, nviol, extra=None):
    discharged = sum(1 for n in obligations if prep['audit'].get(n) is not None) if prep else 0
    cov = {
        'obligations': len(obligations),
        'discharged': discharged,
        'checker_cmd': 'cd /verif/lean && lake build YalafiVerif.Properties.%s && lake env lean Audit_%s.lean  (#print axioms per theorem)' % (prop, prop),
        'trusted_base': TRUSTED_BASE,
        'theorems': {n: (prep['audit'].get(n) if prep else None) for n in obligations},
        'evaluations': ctx.evals,
        'distinct_nontrivial': len(ctx.distinct),
        'rule': ctx.stats.pop('_rule', 'seeded generators, see DESIGN.md 3.5; distinct = distinct inputs by hash; non-trivial as stated per generator'),
        'samples': ctx.samples or ['(none)'],
        'correspondence': ctx.corr,
        'distribution': ctx.stats,
        'known_findings_printed': ctx.known_hits,
        'notes': ctx.notes,
    }
    if prep and prep.get('leanchecker'):
        cov['leanchecker'] = prep['leanchecker']
    if extra:
        cov.update(extra)
    ev = {'property_id': prop, 'tier': tier, 'seed': seed, 'level': 'proof', 'coverage': cov,
          'assumptions': TRUSTED_BASE, 'wall_s': round(wall, 2), 'violations': nviol}
    os.makedirs(os.path.join(VERIF, 'evidence'), exist_ok=True)
    tmp = os.path.join(VERIF, 'evidence', prop + '.json.tmp')
    json.dump(ev, open(tmp, 'w'), indent=1, default=str)
    os.replace(tmp, os.path.join(VERIF, 'evidence', prop + '.json'))

def write_replay(prop, seed, data):
    os.makedirs(os.path.join(VERIF, 'replays'), exist_ok=True)
    path = os.path.join(VERIF, 'replays', '%s-%d.json' % (prop, seed))
    json.dump(data, open(path, 'w'), indent=1, default=str)
    return os.path.relpath(path, VERIF)

def main_check(prop, tier, seed, replay=None):
    t0 = time.time()
    sys.path.insert(0, os.path.dirname(os.path.abspath(__file__)))
    mod = importlib.import_module('props.' + prop)
    obligations = list(getattr(mod, 'OBLIGATIONS', []))
    if replay:
        data = json.load(open(replay))
        ok = mod.replay(data)
        print('replay %s: %s' % (replay, 'property holds on this input' if ok else 'property FAILS on this input'))
        return 0 if ok else 1
    ctx = Ctx(prop, tier, seed)
    prep = prepare(prop, obligations, tier)
    for p in prep['problems']:
        log('[%s] proof/build problem: %s' % (prop, p[:1500]))
    known, fixed = load_known(prop)
    ctx.known, ctx.fixed = known, fixed
    ctx.model_ok = prep.get('driver_ok', False)
    try:
        sys.path.insert(0, os.path.join(VERIF, 'tools'))
        import fingerprint
        ctx.changed_units = fingerprint.diff(REPO)
    except Exception:
        ctx.changed_units = ['<fingerprint not computable>']
    if ctx.changed_units:
        log('[%s] source differs from the recorded fingerprint in %d unit(s): %s -- larger budget' % (
            prop, len(ctx.changed_units), ', '.join(ctx.changed_units[:6])))
        ctx.notes.append('source differs from the recorded fingerprint (larger quick budget): ' + ', '.join(ctx.changed_units[:20]))
    try:
        mod.run(ctx)
    except Exception:
        log(traceback.format_exc())
        write_evidence(prop, tier, seed, ctx, prep, obligations, time.time() - t0, 0, {'internal_error': traceback.format_exc()[-2000:]})
        return 2
    # fixed findings suppress nothing: their witnesses are replayed and must pass
    if hasattr(mod, 'judge_witness'):
        for e in fixed + known:
            fails = mod.judge_witness(e['witness'])
            ctx.count('witness_replayed')
            if fails and e in fixed:
                ctx.violation('returned: %s -- %s' % (e['line'], fails[0]), **e['witness'])
            elif fails:
                ctx.known_hits[e.get('id', e['line'])] = {'what': e['line'], 'count': 1}
    rc = 0
    for fid, info in ctx.known_hits.items():
        print('KNOWN-FINDING: property=%s %s' % (prop, info['what']))
    if ctx.violations:
        v = ctx.violations[0]
        path = write_replay(prop, seed, {'property': prop, 'kind': 'failing-input', 'violation': v,
                                         'others': ctx.violations[1:10], 'proof_problems': prep['problems'],
                                         'correspondence': ctx.corr})
        print('VIOLATION property=%s replay=%s' % (prop, path))
        log('[%s] %s' % (prop, v.get('what')))
        rc = 1
    elif prep['problems'] or ctx.corr['disagreements']:
        broken = prep['problems'] or ['correspondence: %d disagreements' % ctx.corr['disagreements']]
        path = write_replay(prop, seed, {'property': prop, 'kind': 'no-failing-input-found',
                                         'broken': broken, 'first_disagreement': ctx.corr['first'],
                                         'searched': ctx.evals})
        print('VIOLATION property=%s replay=%s no-failing-input-found' % (prop, path))
        rc = 1
    write_evidence(prop, tier, seed, ctx, prep, obligations, time.time() - t0, len(ctx.violations))
    log('[%s] tier=%s seed=%d evals=%d distinct=%d corr=%d/%d disagreements  %.1fs -> exit %d' % (
        prop, tier, seed, ctx.evals, len(ctx.distinct), ctx.corr['disagreements'], ctx.corr['cases'], time.time() - t0, rc))
    return rc
