#!/usr/bin/env python3
"""Apply each seeded defect to /repo, run the check of its property, undo; record who catches what."""
import sys, os, subprocess, json, glob
def sh(cmd, cwd='/verif', timeout=3600):
    p = subprocess.run(cmd, shell=True, cwd=cwd, stdout=subprocess.PIPE, stderr=subprocess.STDOUT, timeout=timeout)
    return p.returncode, p.stdout.decode('utf-8', 'replace')
# SEED_REPO=<scratch worktree of /repo at HEAD>: apply the changes there and point the checks to it (YALAFI_REPO) instead of
# patching /repo itself -- for runs while other work needs /repo unchanged
TARGET = os.environ.get('SEED_REPO', '/repo')
ids = sys.argv[1:] or sorted(os.path.basename(d) for d in glob.glob('/verif/seeded/C*'))
res_path = '/verif/seeded/RESULTS.json'
results = json.load(open(res_path)) if os.path.exists(res_path) else {}
assert sh('git -C %s status --porcelain' % TARGET)[1].strip() == '', 'repo not clean'
for ident in ids:
    prop = ident.split('-')[0]
    if not os.path.exists('/verif/harness/props/%s.py' % prop):
        print(ident, 'no check yet'); continue
    rc, out = sh('git -C %s apply /verif/seeded/%s/patch.diff' % (TARGET, ident))
    if rc != 0:
        print(ident, 'patch does not apply', out[-300:]); continue
    try:
        rc, out = sh('YALAFI_REPO=%s ./check %s --tier quick' % (TARGET, prop))
        line = [l for l in out.split('\n') if l.startswith('VIOLATION')]
        results[ident] = {'check': prop, 'exit': rc, 'line': line[0] if line else None}
        print(ident, 'exit', rc, line[0] if line else '', '|', [l for l in out.split('\n') if l.startswith('[')][-2:-1])
    finally:
        sh('git -C %s checkout -- .' % TARGET)
json.dump(results, open(res_path, 'w'), indent=1)
