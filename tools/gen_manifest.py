#!/usr/bin/env python3
"""(Re)write /verif/MANIFEST.json from the table below."""
import json, os
V = os.path.dirname(os.path.dirname(os.path.abspath(__file__)))
props = [json.loads(l) for l in open(os.path.join(V, 'properties.jsonl'))]
CLAIMED = {
 'C01': ('4 C01', 'Lean theorems (all inputs): get_txt_pos builds text/map in lock step and in range if its tokens are; scanner, error mark, blank-line removal, multi-language splitter, phrase replacement preserve lengths and ranges (C01_*; C01_pipeline_partial composes them). The remaining hypothesis (tokens emitted by the macro expander are in range) is not yet a theorem: it is checked on the implementation (oracle 1<=p<=len on every part, incl. CLI --nums) over G-doc/G-edge/G-mut/G-soup inputs.',
         'Lean 4 theorems over a hand-written model + translated tables; correspondence (differential) check of scanner/get_txt_pos/blank-line removal/latex_error/get_txt_pos_ml against /repo; direct oracle on tex2txt'),
 'C07': ('4 C07', 'Lean theorems: the scanner, blank-line removal and the language splitter terminate and never exhaust their measure (C07_*); totality of the expander itself is checked on the implementation with prefixes, token deletions, token soup and truncated argument shapes of every built-in macro.',
         'Lean 4 totality/progress theorems for the non-expander stages + malformed-input streams on the implementation'),
 'C13': ('4 C13', 'Lean theorems for all texts, position lists (also non-monotonic), rule lists: substitute equals the per-index specification (C13_substitute_spec), positions stay within the input positions, the matcher yields disjoint increasing spans, respects word boundaries and never crosses a paragraph break, comment/no-lhs lines are ignored. The hand-written matcher is tied to Python re by correspondence on every run.',
         'Lean 4 proof (refinement to a per-index specification) + correspondence of model and utils.replace_phrases/substitute + independent reference matcher'),
}
LEVEL_NOTE = ('Trusted: Lean kernel (axioms propext, Classical.choice, Quot.sound only, audited per theorem each run); translator gen_tables.py; '
              'the hand-written model is validated against /repo by seeded differential testing, not proved; Python re/str semantics as in /venv.')
m = {
 'version': 1,
 'setup_cmd': 'cd /verif && /venv/bin/python translator/gen_tables.py /repo lean/YalafiVerif/Generated/Tables.lean && cd lean && lake build',
 'hooks': {'guard': 'YALAFI_VERIF', 'enable': 'no hooks: the harness observes the implementation from outside (monkey-patching at run time), nothing in /repo is guarded',
           'baseline_off_cmd': 'cd /repo && /venv/bin/python -m pytest -ra -q -p no:cacheprovider --timeout=900 --continue-on-collection-errors',
           'source_commits': [], 'add_only': True},
 'engines': [{'name': 'lean-model', 'path': 'lean/', 'serves_properties': sorted(CLAIMED), 'kind_free_text': 'Lean 4 model + theorems (lake project, no Mathlib in model files), compiled driver for the correspondence check'},
             {'name': 'harness', 'path': 'harness/', 'serves_properties': sorted(CLAIMED), 'kind_free_text': 'Python: generators, implementation adapters, oracles, correspondence, evidence'}],
 'checks': [], 'not_applicable': [],
 'notes': 'Entry point ./check Cxx [--tier quick|thorough] [--replay FILE]; see DESIGN.md.  Genuine defects repaired in /repo as fix: commits are listed in known_findings.json.',
}
for p in props:
    pid = p['id']
    if pid in CLAIMED:
        ref, text, tech = CLAIMED[pid]
        m['checks'].append({
            'property_id': pid, 'quick_cmd': './check %s --tier quick' % pid, 'thorough_cmd': './check %s --tier thorough' % pid,
            'evidence_file': 'evidence/%s.json' % pid, 'replay_cmd_template': './check %s --replay {path}' % pid,
            'engine': 'lean-model', 'level_claimed': {'category': 'proof', 'text': text, 'design_ref': 'DESIGN.md section ' + ref},
            'level_note': LEVEL_NOTE, 'technique': tech})
    else:
        m['not_applicable'].append({'property_id': pid, 'reason': 'check under construction (model and theorems planned in DESIGN.md section 4); will be claimed once its check runs'})
json.dump(m, open(os.path.join(V, 'MANIFEST.json'), 'w'), indent=1)
print('claimed:', sorted(CLAIMED))
