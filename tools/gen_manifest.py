#!/usr/bin/env python3
"""(Re)write /verif/MANIFEST.json from the table below."""
import json, os
V = os.path.dirname(os.path.dirname(os.path.abspath(__file__)))
props = [json.loads(l) for l in open(os.path.join(V, 'properties.jsonl'))]
SH = 'Lean 4 theorems over a hand-written model of the pure functions of yalafi/shell; correspondence (differential) of model and /repo on every run; '
T2T = 'Lean 4 theorems over a hand-written model of the whole filter + translated tables; token-level correspondence (differential) of model and /repo on every run; '
CLAIMED = {
 'C01': ('4 C01', 'Lean theorem C01_tex2txt(_current): for the whole filter model (scanner, macro expander with all handlers and bundled packages, maths parser, blank-line removal, detached flows, phrase replacement, multi-language splitter), every source, option record, file system and fuel: equal lengths and 1<=p<=len(source) (induction on fuel over the mutual block; ghost hypothesis foreign=false reported per run). Table facts decided by the kernel on the tables translated from /repo (Generated/WF.lean). The model is tied to the code by token-level correspondence on G-doc/G-edge/G-mut/G-soup inputs; the same inputs are judged by the direct oracle incl. CLI --nums.',
         T2T + 'direct oracle on tex2txt and the CLI'),
 'C02': ('4 C02', 'Lean theorems: scanner tokens are literal slices at their own offset (also \\verb/verbatim content), get_txt_pos maps a position-counting token to pos+i, blank-line removal never changes a visible character or its position. The literal-slice property of tokens emitted by the expander is checked on the implementation (final token list + unique words of generated documents at the offsets the generator recorded) and by correspondence with the model.',
         T2T + 'word-offset oracle from the document generator'),
 'C03': ('4 C03', 'Lean theorem C03_kinds (corollary of the fuel induction): no control-sequence/begin/end/item/special/accent/verbatim/maths-class token ever reaches the output of parser_work, for all inputs; blank-line removal emits only text/language tokens. Word conservation (multiplicity, order, flows last, hidden text absent) is checked against a TeX-substitution reference semantics of generated documents; heading double expansion is a recorded known finding.',
         T2T + 'reference semantics oracle on generated AST documents'),
 'C04': ('4 C04', 'Lean lemmas: error marks start at the problem position, re-stamped body tokens are fixed at the anchor, all generated tokens are in range (C01 bundle). The span claim (generated text maps into a use of its construct, also for repeated uses) is checked on the implementation with generated documents incl. repeated uses of one definition, and by token-level correspondence with the value-semantics model (catches shared mutable tokens).',
         T2T + 'span oracle from the document generator'),
 'C05': ('4 C05', 'Lean theorems on the model of remove_pure_action_lines (all token lists): identity without Action tokens, visible characters and their positions unchanged, output text is the input with white space deleted; scanner: >=2 line breaks = paragraph token. The layout relation glued / same paragraph / blank line between adjacent surviving words is checked against a TeX-style reading of generated separators.',
         T2T + 'layout-relation oracle'),
 'C06': ('4 C06', 'Lean theorems: longest match at every offset, ordinary characters are one-character text tokens, the documented table entries are present in the table translated from /repo (decide). The end-to-end fixed point / replacement is checked exhaustively on short strings and on random prose against an independent reference.',
         T2T + 'exhaustive short strings + reference longest-match'),
 'C07': ('4 C07 and 10.2', 'Lean theorem C07_tex2txt_no_crash(_current): in the model every Python expression that can raise (index, key, [-1]/[0] of a possibly empty list; 31 sites) is an explicit crash value; for every source, option record, file system and fuel the whole filter model never reaches one, except the three sites of allowedCrash (two markers of the unmodelled cleveref package, cap_first on an empty text token: open obligation named in the theorem statement). Proved by the same induction on fuel as C01, with table facts decided by the kernel on the tables translated from /repo. Scanner, blank-line removal and language splitter terminate and never exhaust their measure. Termination of the expander is not proved (fuel). The implementation is checked on prefixes, token deletions, token soup, every built-in macro by signature and with truncated argument shapes, long lists, and by outcome correspondence with the model.',
         T2T + 'malformed-input streams on the implementation'),
 'C08': ('4 C08', 'Lean theorems: latex_error returns the complete mark, fixed, first token at the problem position, in range also at the end of the text; line/column arithmetic; the scanner passes the complete mark on. Diagnostic position, mark position and conservation of later text are checked by fault injection; silence on well-formed generated documents.',
         T2T + 'fault injection'),
 'C09': ('4 C09', 'Lean lemmas: table update on definition (later look-ups see the new entry, other names unchanged), #k selects the k-th argument, empty body. Substitution semantics, use-before-definition, redefinition and the equivalence of the three supply routes are checked against the AST reference and cross-run relations.',
         T2T + 'metamorphic route comparison + reference semantics'),
 'C10': ('4 C10', 'Lean lemmas: rotation by one keeps length/elements and advances the head, detect_math_parts partitions; all formula tokens are output-class and in range (bundle). The rendering of every formula (blank, placeholder k mod len, punctuation, blank) is checked by counting on generated documents in en/de/ru.',
         T2T + 'counting oracle'),
 'C11': ('4 C11', 'Lean lemmas as C10 plus C11_display_tokens (bundle): everything an equation contributes is output-class and in range. The rewriting scheme is checked against a transcription of the README rules for every generated equation (all equation environments, en/de/ru, simple mode).',
         T2T + 'README-scheme reference'),
 'C12': ('4 C12', 'Lean theorems on the model of get_txt_pos_ml (all token lists): sectioning conserves text/positions, language stack = reference stack, parts have equal lengths and positions from the token stream, languages unique, never raises, language tokens survive blank-line removal. Word-to-language assignment and the relation to the single-language run are checked against an AST reference.',
         T2T + 'language-assignment oracle'),
 'C13': ('4 C13', 'Lean theorems for all texts, position lists (also non-monotonic), rule lists: substitute equals the per-index specification (C13_substitute_spec), positions stay within the input positions, the matcher yields disjoint increasing spans, respects word boundaries and never crosses a paragraph break, comment/no-lhs lines are ignored. The hand-written matcher is tied to Python re by correspondence on every run.',
         'Lean 4 proof (refinement to a per-index specification) + correspondence of model and utils.replace_phrases/substitute + independent reference matcher'),
 'C14': ('4 C14', 'Lean theorems (model of the pure shell functions, all maps/offsets): for a copied word (contiguous map) map_match_position returns the word offset and length; assembling several parts shifts match offsets by exactly the text assembled before the part and keeps text and map the same length; sorting by LaTeX position is ordered and rejects offsets outside the map. Agreement of plain/json/xml/xml-b/html reports, order, and language per part are checked end to end with a fake proofreader on generated (multi-language) documents; model tied to utils.map_match_position and the assembly code by correspondence.',
         SH + 'end-to-end subprocess runs with a fake proofreader'),
 'C15': ('4 C15', 'Lean theorems: typed JSON access never raises and returns the demanded type; with integer length and non-empty map map_match_position never raises for any offset/length and, if the map satisfies C01, the reported span lies inside the file; sorting validates offsets before use. All report generators are exercised with field deletions, type changes, value perturbations (incl. huge and negative numbers), truncations and non-JSON answers in all output modes (only exit codes 0/1 with a diagnostic are accepted).',
         SH + 'malformed-answer enumeration through the real shell (subprocess)'),
 'C16': ('4 C16', 'Lean theorems (all strings): protect_html leaves no double quote, < and > occur exactly once per line break, escaping distributes over concatenation. Faithful line cells, line numbers, one highlight per match (in place or in the overlap list) with the mapped source span, and absence of foreign tags are checked on reports parsed with html.parser for generated files and match sets incl. overlapping, nested, multi-line, zero-length matches.',
         SH + 'parsed HTML reports from the real shell'),
 'C17': ('4 C17', 'Lean: the filter model is a pure function of (tables, source, options, files) and every call starts from the same initial parser state (C17_initialState_fresh); C17_globals_accounted (kernel-decided on the AST scan of the working tree, regenerated every run) shows every module-level mutable object in yalafi/ is on the examined list. Implementation: call sequences in one interpreter vs. each call alone in a fresh interpreter, repeated calls, request sequences to one --as-server process vs. fresh servers; the correspondence runs hundreds of documents in one interpreter against the pure model.',
         'Lean 4 (purity of the model + kernel-decided inventory of module-level state translated from /repo) + history experiments in one interpreter / one server process'),
 'C18': ('4 C18', 'Lean theorems (all inclusion relations, skip predicates, fuel): the --include work list has no duplicates and no skipped file, contains the given files, is closed under inclusion and contains only reachable files; .tex appended iff missing. Extraction output and the work list end to end are checked on generated documents and inclusion graphs (cycles, self-inclusion, duplicates, dots in names, sub-directories, --skip).',
         SH + 'generated inclusion graphs through the real shell'),
 'C20': ('4 C20', 'Lean theorems (all texts; character classes translated from the interpreter): the single-letter scan reports exactly the isolated letters, each once, in increasing order; a letter is suppressed iff it lies inside a hit of the accept scan; the context excerpt marks the same characters as offset/length. Accept-pattern construction (overlapping hits) and the equation-punctuation pattern are checked against reference scans written from the wording.',
         SH + 'reference scans'),
 'C19': ('4 C19', 'Lean theorems: the only writer of the unknowns list appends a name iff it is not in maths mode and not yet listed (no duplicates, order of first use, maths uses ignored). Completeness and exclusion of declared names are checked against the AST reference with --unkn.',
         T2T + 'reference unknowns list from the AST'),
}
LEVEL_NOTE = ('Trusted: Lean kernel (axioms propext, Classical.choice, Quot.sound only, audited per theorem each run); translator gen_tables.py; '
              'the hand-written model is validated against /repo by seeded differential testing, not proved; Python re/str semantics as in /venv.')
m = {
 'version': 1,
 'setup_cmd': 'cd /verif && /venv/bin/python translator/gen_tables.py /repo lean/YalafiVerif/Generated/Tables.lean && cd lean && lake build',
 'hooks': {'guard': 'YALAFI_VERIF', 'enable': 'no hooks: the harness observes the implementation from outside (monkey-patching at run time), nothing in /repo is guarded',
           'baseline_off_cmd': 'cd /repo && /venv/bin/python -m pytest -ra -q -p no:cacheprovider --timeout=900 --continue-on-collection-errors',
           'source_commits': [], 'add_only': True},
 'engines': [{'name': 'lean-model', 'path': 'lean/', 'serves_properties': sorted(CLAIMED), 'kind_free_text': 'Lean 4 model + theorems (lake project, no Mathlib in model files), compiled driver for the correspondence check'},
             {'name': 'harness', 'path': 'harness/', 'serves_properties': sorted(CLAIMED), 'kind_free_text': 'Python: generators, implementation adapters, oracles, correspondence, evidence'}],
 'checks': [], 'not_applicable': [],
 'notes': 'Entry point ./check Cxx [--tier quick|thorough] [--replay FILE]; see DESIGN.md.  Genuine defects repaired in /repo as fix: commits are listed in known_findings.json.',
}
for p in props:
    pid = p['id']
    if pid in CLAIMED:
        ref, text, tech = CLAIMED[pid]
        m['checks'].append({
            'property_id': pid, 'quick_cmd': './check %s --tier quick' % pid, 'thorough_cmd': './check %s --tier thorough' % pid,
            'evidence_file': 'evidence/%s.json' % pid, 'replay_cmd_template': './check %s --replay {path}' % pid,
            'engine': 'lean-model', 'level_claimed': {'category': 'proof', 'text': text, 'design_ref': 'DESIGN.md section ' + ref},
            'level_note': LEVEL_NOTE, 'technique': tech})
    else:
        m['not_applicable'].append({'property_id': pid, 'reason': 'check under construction (model and theorems planned in DESIGN.md section 4); will be claimed once its check runs'})
json.dump(m, open(os.path.join(V, 'MANIFEST.json'), 'w'), indent=1)
print('claimed:', sorted(CLAIMED))
