"""helper: exact-once replacement in a /repo file, preserving CRLF line ends"""
import sys
def patch(p, old, new):
    s = open(p, newline='').read()
    nl = '\r\n' if '\r\n' in s else '\n'
    old = old.replace('\n', nl); new = new.replace('\n', nl)
    assert s.count(old) == 1, (p, s.count(old))
    open(p, 'w', newline='').write(s.replace(old, new))
