#!/venv/bin/python
"""Which lines of yalafi/ do the generated inputs of the correspondence check execute?
Runs the standard case mix (t2t.doc_cases) and the property-specific generators in-process under
coverage.py and prints, per file, the line coverage and the lines never executed.  A line that no
generated input reaches is a place where the model is NOT tied to the code by the correspondence."""
import sys, os, random, json
HERE = os.path.dirname(os.path.dirname(os.path.abspath(__file__)))
sys.path.insert(0, os.path.join(HERE, 'harness'))
import coverage
cov = coverage.Coverage(source=['/repo/yalafi'], branch=False, data_file=None)
cov.start()
import impl, t2t, gen, semrun
class Ctx:
    def __init__(self, seed):
        self.rng = random.Random(seed)
    def scale(self, a, b):
        return a
n = int(sys.argv[1]) if len(sys.argv) > 1 else 400
ctx = Ctx(1)
cases = t2t.doc_cases(ctx, n)
for lang in ['', 'de', 'ru', 'en-GB']:
    for _ in range(n // 4):
        cases.append(semrun.make_case(ctx.rng, opts={'lang': lang, 'pack': '*', 'dcls': ctx.rng.choice(['', 'article', 'scrbook'])}))
import mlmath
for _ in range(60):
    full, per = mlmath.cases_of(mlmath.make(ctx.rng, display=True)); cases.append(full)
for c in cases:
    c = {k: v for k, v in c.items() if k not in ('ast', 'words', 'spans', 'callspans')}
    c['timeout'] = 20
    try:
        t2t.run_case(c)
    except Exception as e:
        print('ERR', e)
cov.stop()
tot = miss = 0
rep = {}
for f in sorted(cov.get_data().measured_files()):
    if '/shell' in f:
        continue
    _, stmts, _, missing, _ = cov.analysis2(f)
    tot += len(stmts); miss += len(missing)
    rep[os.path.relpath(f, '/repo')] = (len(stmts), missing)
for f, (n_, m) in rep.items():
    print('%-40s %4d stmts %5.1f%%  missing %s' % (f, n_, 100.0 * (n_ - len(m)) / max(1, n_), m[:60]))
print('TOTAL %d statements, %.1f%% executed by %d generated cases' % (tot, 100.0 * (tot - miss) / tot, len(cases)))
