#!/usr/bin/env python3
"""Import a seeded defect produced by a sub-agent into /verif/seeded/<id>/ after
confirming it on a scratch worktree: patch applies to /repo HEAD, demo exits 1 with
the patch and 0 without, the pinned test suite passes with the patch."""
import sys, os, subprocess, json, shutil
def sh(cmd, cwd=None, timeout=1800):
    p = subprocess.run(cmd, shell=True, cwd=cwd, stdout=subprocess.PIPE, stderr=subprocess.STDOUT, timeout=timeout)
    return p.returncode, p.stdout.decode('utf-8', 'replace')
def main(ident, run_tests=True):
    src = '/tmp/mut/out/' + ident
    wt = '/tmp/mut/verify-' + ident
    sh('git -C /repo worktree remove --force ' + wt)
    rc, out = sh('git -C /repo worktree add --detach %s HEAD' % wt)
    assert rc == 0, out
    res = {'id': ident}
    try:
        rc, out = sh('/venv/bin/python %s/demo.py' % src, cwd=wt, timeout=600)
        res['demo_without'] = rc
        rc, out = sh('git apply %s/patch.diff' % src, cwd=wt)
        res['applies'] = (rc == 0)
        if rc != 0:
            res['apply_err'] = out[-500:]
            return res
        rc, out = sh('/venv/bin/python %s/demo.py' % src, cwd=wt, timeout=600)
        res['demo_with'] = rc
        res['demo_out'] = out[-600:]
        if run_tests:
            for attempt in range(3):   # fixed-port server tests can collide with other suites running on this machine
                rc, out = sh("unshare -n sh -c 'ip link set lo up 2>/dev/null; /venv/bin/python -m pytest -q -p no:cacheprovider --timeout=900'", cwd=wt)   # private network namespace: the suite's server tests use the fixed port 8081
                res['tests_with'] = out.strip().split('\n')[-1]
                if 'failed' not in res['tests_with']:
                    break
    finally:
        sh('git -C /repo worktree remove --force ' + wt)
    ok = res.get('demo_without') == 0 and res.get('demo_with') == 1 and 'passed' in res.get('tests_with', 'passed') and 'failed' not in res.get('tests_with', '')
    res['confirmed'] = ok
    if ok:
        dst = '/verif/seeded/' + ident
        os.makedirs(dst, exist_ok=True)
        shutil.copy(src + '/patch.diff', dst + '/patch.diff')
        shutil.copy(src + '/demo.py', dst + '/demo.py')
        meta = {}
        try:
            meta = json.load(open(src + '/meta.json'))
        except Exception:
            pass
        meta.update({'id': ident, 'property': ident.split('-')[0], 'confirmed_by': 'tools/seed_import.py on a scratch worktree of /repo HEAD',
                     'ran': ['demo.py without patch -> exit %s' % res['demo_without'], 'demo.py with patch -> exit %s' % res['demo_with'],
                             'pytest with patch: %s' % res.get('tests_with')],
                     'repo_head': sh('git -C /repo rev-parse --short HEAD')[1].strip()})
        json.dump(meta, open(dst + '/meta.json', 'w'), indent=1, ensure_ascii=False)
    return res
if __name__ == '__main__':
    for ident in sys.argv[1:]:
        print(json.dumps(main(ident), ensure_ascii=False)[:1200])
