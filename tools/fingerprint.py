#!/usr/bin/env python3
"""Fingerprint of the source the model was written against: one hash per function / class / module body of every
module under <repo>/yalafi (AST dump, so comments and layout do not count).

  tools/fingerprint.py <repo> --write     rewrite source_fingerprint.json (done when the model has been brought up to date)
  tools/fingerprint.py <repo>             print the units whose source differs from the recorded fingerprint

The checks use `diff()`: a unit that differs is NOT an alarm (the property may well hold) -- it only makes the quick tier
spend a larger budget on the correspondence and the oracles, and the evidence file names the units."""
import ast, hashlib, json, os, sys

HERE = os.path.dirname(os.path.dirname(os.path.abspath(__file__)))
STORE = os.path.join(HERE, 'source_fingerprint.json')

def units(repo):
    out = {}
    root = os.path.join(repo, 'yalafi')
    for d, _, fs in sorted(os.walk(root)):
        for fn in sorted(fs):
            if not fn.endswith('.py'):
                continue
            p = os.path.join(d, fn)
            rel = os.path.relpath(p, repo)
            try:
                tree = ast.parse(open(p, encoding='utf-8').read())
            except Exception as e:
                out[rel + ':<unparsable>'] = str(e)[:80]
                continue
            rest = []
            def walk(body, prefix):
                for n in body:
                    if isinstance(n, (ast.FunctionDef, ast.AsyncFunctionDef)):
                        out['%s:%s%s' % (rel, prefix, n.name)] = hashlib.sha1(ast.dump(n).encode()).hexdigest()[:16]
                    elif isinstance(n, ast.ClassDef):
                        walk(n.body, prefix + n.name + '.')
                        hdr = ast.ClassDef(name=n.name, bases=n.bases, keywords=n.keywords, body=[], decorator_list=n.decorator_list)
                        rest.append(ast.dump(hdr))
                    else:
                        rest.append(prefix + ast.dump(n))
            walk(tree.body, '')
            out[rel + ':<module level>'] = hashlib.sha1('\n'.join(rest).encode()).hexdigest()[:16]
    return out

def diff(repo):
    """sorted list of units added, removed or changed with respect to the recorded fingerprint"""
    try:
        old = json.load(open(STORE))
    except Exception:
        return ['<no fingerprint recorded>']
    new = units(repo)
    return sorted(k for k in set(old) | set(new) if old.get(k) != new.get(k))

if __name__ == '__main__':
    repo = sys.argv[1] if len(sys.argv) > 1 else '/repo'
    if '--write' in sys.argv:
        json.dump(units(repo), open(STORE, 'w'), indent=0, sort_keys=True)
        print('recorded %d units' % len(units(repo)))
    else:
        d = diff(repo)
        print('\n'.join(d) if d else 'source equals the recorded fingerprint')
